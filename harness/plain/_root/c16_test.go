//go:build verif

package rueidis

// C16 - typed accessors return exactly what the reply encodes.
//
// For every helper a small DATA model is enumerated exhaustively up to a
// bound, encoded into each reply shape a Redis server uses for it (RESP2 and
// RESP3), written as wire text, decoded by the real decoder and handed to the
// accessor. The expected result is computed from the DATA only.

import (
	"bufio"
	"encoding/json"
	"fmt"
	"io"
	"math"
	"reflect"
	"strconv"
	"strings"
	"testing"

	"github.com/redis/rueidis/vshim/vrun"
)

// ---------------------------------------------------------------- reply values

type c16v struct {
	typ  byte
	s    string
	kids []c16v
}

func c16str(s string) c16v  { return c16v{typ: '$', s: s} }
func c16sim(s string) c16v  { return c16v{typ: '+', s: s} }
func c16dbl(s string) c16v  { return c16v{typ: ',', s: s} }
func c16int(n int64) c16v   { return c16v{typ: ':', s: strconv.FormatInt(n, 10)} }
func c16null() c16v         { return c16v{typ: '_'} }
func c16arr(k ...c16v) c16v { return c16v{typ: '*', kids: k} }
func c16set(k ...c16v) c16v { return c16v{typ: '~', kids: k} }
func c16map(k ...c16v) c16v { return c16v{typ: '%', kids: k} }
func c16bool(b bool) c16v {
	if b {
		return c16v{typ: '#', s: "t"}
	}
	return c16v{typ: '#', s: "f"}
}

func (v c16v) wire(sb *strings.Builder) {
	switch v.typ {
	case '$', '=', '!':
		sb.WriteByte(v.typ)
		sb.WriteString(strconv.Itoa(len(v.s)))
		sb.WriteString("\r\n")
		sb.WriteString(v.s)
		sb.WriteString("\r\n")
	case '*', '~', '>':
		sb.WriteByte(v.typ)
		sb.WriteString(strconv.Itoa(len(v.kids)))
		sb.WriteString("\r\n")
		for _, k := range v.kids {
			k.wire(sb)
		}
	case '%':
		if len(v.kids)%2 != 0 {
			panic("c16: odd map")
		}
		sb.WriteByte('%')
		sb.WriteString(strconv.Itoa(len(v.kids) / 2))
		sb.WriteString("\r\n")
		for _, k := range v.kids {
			k.wire(sb)
		}
	default:
		sb.WriteByte(v.typ)
		sb.WriteString(v.s)
		sb.WriteString("\r\n")
	}
}

func (v c16v) String() string {
	var sb strings.Builder
	v.wire(&sb)
	return sb.String()
}

type c16replay struct {
	Section string `json:"section"`
	Case    string `json:"case"`
}

type c16ctx struct {
	r       *vrun.Run
	section string
	only    *c16replay
	br      *bufio.Reader
	sr      *strings.Reader
}

func (c *c16ctx) decode(wire string) RedisMessage {
	c.sr.Reset(wire)
	c.br.Reset(c.sr)
	m, err := readNextMessage(c.br)
	if err != nil || c.br.Buffered() != 0 || c.sr.Len() != 0 {
		panic(fmt.Sprintf("c16 harness: wire %q does not decode cleanly: %v", wire, err))
	}
	return m
}

// c16eq compares got and want; floats by bits except that all NaNs are equal,
// nil and empty maps/slices are equal.
func c16eq(a, b any) bool {
	return c16eqv(reflect.ValueOf(a), reflect.ValueOf(b))
}

func c16eqv(a, b reflect.Value) bool {
	if a.IsValid() != b.IsValid() {
		return false
	}
	if !a.IsValid() {
		return true
	}
	if a.Type() != b.Type() {
		return false
	}
	switch a.Kind() {
	case reflect.Float64:
		x, y := a.Float(), b.Float()
		return (math.IsNaN(x) && math.IsNaN(y)) || math.Float64bits(x) == math.Float64bits(y)
	case reflect.Slice:
		if a.Len() != b.Len() {
			return false
		}
		for i := 0; i < a.Len(); i++ {
			if !c16eqv(a.Index(i), b.Index(i)) {
				return false
			}
		}
		return true
	case reflect.Map:
		if a.Len() != b.Len() {
			return false
		}
		for _, k := range a.MapKeys() {
			bv := b.MapIndex(k)
			if !bv.IsValid() || !c16eqv(a.MapIndex(k), bv) {
				return false
			}
		}
		return true
	case reflect.Struct:
		for i := 0; i < a.NumField(); i++ {
			if !c16eqv(a.Field(i), b.Field(i)) {
				return false
			}
		}
		return true
	case reflect.Interface, reflect.Ptr:
		if a.IsNil() || b.IsNil() {
			return a.IsNil() == b.IsNil()
		}
		return c16eqv(a.Elem(), b.Elem())
	}
	return reflect.DeepEqual(a.Interface(), b.Interface())
}

// expect runs f on the decoded reply (under a panic guard) and compares.
// wantErr: the accessor must return a non-nil error (value ignored).
func (c *c16ctx) expect(acc, shape, class string, reply c16v, data any, want any, wantErr bool, f func(res RedisResult) (any, error)) {
	wire := reply.String()
	key := acc + "|" + shape + "|" + wire
	if c.only != nil && (c.only.Section != c.section || c.only.Case != key) {
		return
	}
	r := c.r
	r.Evaluations++
	r.StateStr(c.section, key)
	if class != "plain" {
		r.NonTrivialStr(c.section, key)
	}
	msg := c.decode(wire)
	var got any
	var err error
	p, site := vrun.Catch(func() { got, err = f(NewResult(msg, nil)) })
	rp := c16replay{Section: c.section, Case: key}
	switch {
	case p != nil:
		r.Outcome("panic")
		r.Violate(fmt.Sprintf("%s on %s reply panics in %s: %s", acc, shape, site, class),
			fmt.Sprintf("data %+v encoded as %q: %s panicked: %v", data, wire, acc, p), rp)
	case wantErr:
		if err == nil {
			r.Outcome("missing error")
			r.Violate(fmt.Sprintf("%s on %s reply: no error for %s", acc, shape, class),
				fmt.Sprintf("data %+v encoded as %q: %s returned %+v with nil error, want an error", data, wire, acc, got), rp)
		} else {
			r.Outcome("error as expected")
		}
	case err != nil:
		r.Outcome("unexpected error")
		r.Violate(fmt.Sprintf("%s on %s reply: unexpected error for %s", acc, shape, class),
			fmt.Sprintf("data %+v encoded as %q: %s returned error %v, want %+v", data, wire, acc, err, want), rp)
	case !c16eq(got, want):
		r.Outcome("wrong value")
		r.Violate(fmt.Sprintf("%s on %s reply: wrong value for %s", acc, shape, class),
			fmt.Sprintf("data %+v encoded as %q: %s returned %+v, want %+v", data, wire, acc, got, want), rp)
	default:
		r.Outcome("equal")
	}
	if r.WantSample() && class != "plain" {
		r.Sample(map[string]any{"accessor": acc, "shape": shape, "wire": wire, "want": fmt.Sprintf("%+v", want)})
	}
}

// c16seqs enumerates all sequences over n symbols with length 0..maxLen.
func c16seqs(n, maxLen int, f func(idx []int)) {
	var rec func(cur []int)
	rec = func(cur []int) {
		f(cur)
		if len(cur) == maxLen {
			return
		}
		for i := 0; i < n; i++ {
			rec(append(cur, i))
		}
	}
	rec(make([]int, 0, maxLen))
}

// ---------------------------------------------------------------- reference parsers

// RESP3 doubles / Redis score strings: decimal text, inf, -inf, nan (some
// platforms print -nan).
func c16refFloat(s string) (float64, bool) {
	if s == "-nan" {
		return math.NaN(), true
	}
	v, err := strconv.ParseFloat(s, 64)
	return v, err == nil
}

var c16texts = []string{"", "a", "0", "1", "-1", "-0", "+1", "1.5", "inf", "-inf", "+inf", "nan", "-nan", "1e309", "-1e309", "1e-400", "OK", "ok",
	"9223372036854775807", "9223372036854775808", "-9223372036854775808", "-9223372036854775809", "18446744073709551615", "18446744073709551616",
	" 1", "1 ", "0x10", "1_0", "010", "t", "true", `{"a":1}`, `[1,"a"]`, "null", `"s"`, "{", "txt:a"}

func c16textClass(s string) string {
	switch s {
	case "inf", "-inf", "+inf", "nan", "-nan", "1e309", "-1e309", "1e-400":
		return "special float text " + s
	case "a", "1", "1.5", "OK":
		return "plain"
	}
	if _, err := strconv.ParseInt(s, 10, 64); err != nil {
		if _, err := strconv.ParseUint(s, 10, 64); err == nil {
			return "integer text above MaxInt64"
		}
		if _, ok := c16refFloat(s); ok {
			return "float text"
		}
		return "non-numeric text"
	}
	return "integer text"
}

// ---------------------------------------------------------------- sections

func (c *c16ctx) scalars() {
	c.section = "scalar"
	for _, s := range c16texts {
		s := s
		cls := c16textClass(s)
		for _, mk := range []struct {
			shape string
			v     c16v
		}{{"blob string", c16str(s)}, {"simple string", c16sim(s)}} {
			v, shape := mk.v, mk.shape
			c.expect("ToString", shape, cls, v, s, s, false, func(r RedisResult) (any, error) { return r.ToString() })
			c.expect("AsBytes", shape, cls, v, s, []byte(s), false, func(r RedisResult) (any, error) { return r.AsBytes() })
			c.expect("AsReader", shape, cls, v, s, s, false, func(r RedisResult) (any, error) {
				rd, err := r.AsReader()
				if err != nil {
					return nil, err
				}
				b, err := io.ReadAll(rd)
				return string(b), err
			})
			wi, ei := strconv.ParseInt(s, 10, 64)
			c.expect("AsInt64", shape, cls, v, s, wi, ei != nil, func(r RedisResult) (any, error) { return r.AsInt64() })
			wu, eu := strconv.ParseUint(s, 10, 64)
			c.expect("AsUint64", shape, cls, v, s, wu, eu != nil, func(r RedisResult) (any, error) { return r.AsUint64() })
			wf, okf := c16refFloat(s)
			c.expect("AsFloat64", shape, cls, v, s, wf, !okf, func(r RedisResult) (any, error) { return r.AsFloat64() })
			var wj any
			ej := json.Unmarshal([]byte(s), &wj)
			c.expect("DecodeJSON", shape, cls, v, s, wj, ej != nil, func(r RedisResult) (any, error) {
				var g any
				err := r.DecodeJSON(&g)
				return g, err
			})
			c.expect("ToAny", shape, cls, v, s, any(s), false, func(r RedisResult) (any, error) { return r.ToAny() })
		}
		// RESP3 double
		if wf, okf := c16refFloat(s); okf || s == "a" || s == "" {
			v := c16dbl(s)
			c.expect("ToFloat64", "double", cls, v, s, wf, !okf, func(r RedisResult) (any, error) { return r.ToFloat64() })
			c.expect("AsFloat64", "double", cls, v, s, wf, !okf, func(r RedisResult) (any, error) { return r.AsFloat64() })
			if okf {
				c.expect("ToAny", "double", cls, v, s, any(wf), false, func(r RedisResult) (any, error) { return r.ToAny() })
			}
		}
		// RESP3 big number
		if _, okf := c16refFloat(s); okf && !strings.ContainsAny(s, ".einf ") {
			v := c16v{typ: '(', s: s}
			wi, ei := strconv.ParseInt(s, 10, 64)
			c.expect("AsInt64", "big number", cls, v, s, wi, ei != nil, func(r RedisResult) (any, error) { return r.AsInt64() })
			wu, eu := strconv.ParseUint(s, 10, 64)
			c.expect("AsUint64", "big number", cls, v, s, wu, eu != nil, func(r RedisResult) (any, error) { return r.AsUint64() })
		}
	}
	for _, n := range []int64{0, 1, -1, 2, 42, math.MaxInt64, math.MinInt64} {
		n := n
		v := c16int(n)
		cls := "plain"
		if n < 0 {
			cls = "negative integer"
		}
		c.expect("ToInt64", "integer", cls, v, n, n, false, func(r RedisResult) (any, error) { return r.ToInt64() })
		c.expect("AsInt64", "integer", cls, v, n, n, false, func(r RedisResult) (any, error) { return r.AsInt64() })
		c.expect("AsUint64", "integer", cls, v, n, uint64(n), n < 0, func(r RedisResult) (any, error) { return r.AsUint64() })
		c.expect("ToAny", "integer", cls, v, n, any(n), false, func(r RedisResult) (any, error) { return r.ToAny() })
		if n == 0 || n == 1 {
			c.expect("AsBool", "integer", cls, v, n == 1, n == 1, false, func(r RedisResult) (any, error) { return r.AsBool() })
		}
	}
	for _, b := range []bool{false, true} {
		b := b
		v := c16bool(b)
		c.expect("ToBool", "boolean", "plain", v, b, b, false, func(r RedisResult) (any, error) { return r.ToBool() })
		c.expect("AsBool", "boolean", "plain", v, b, b, false, func(r RedisResult) (any, error) { return r.AsBool() })
		c.expect("ToAny", "boolean", "plain", v, b, any(b), false, func(r RedisResult) (any, error) { return r.ToAny() })
	}
	// SET ... NX style: +OK means true
	c.expect("AsBool", "simple string", "plain", c16sim("OK"), true, true, false, func(r RedisResult) (any, error) { return r.AsBool() })
	c.expect("AsBool", "blob string", "plain", c16str("OK"), true, true, false, func(r RedisResult) (any, error) { return r.AsBool() })
}

// optional string element: nil = null reply
type c16ostr struct {
	nul bool
	s   string
}

func (c *c16ctx) arrays(maxLen int) {
	c.section = "array"
	elems := []c16ostr{{s: ""}, {s: "a"}, {s: "1"}, {s: "-1"}, {s: "1.5"}, {nul: true}}
	shapes := []struct {
		name string
		mk   func(...c16v) c16v
	}{{"array", c16arr}, {"set", c16set}}
	c16seqs(len(elems), maxLen, func(idx []int) {
		var kids []c16v
		var want []string
		cls := "plain"
		seen := map[int]bool{}
		for _, i := range idx {
			e := elems[i]
			if e.nul {
				kids = append(kids, c16null())
				cls = "null element"
			} else {
				kids = append(kids, c16str(e.s))
			}
			if seen[i] && cls == "plain" {
				cls = "duplicate element"
			}
			seen[i] = true
			want = append(want, e.s)
		}
		want = append([]string{}, want...)
		for _, sh := range shapes {
			v := sh.mk(kids...)
			c.expect("AsStrSlice", sh.name, cls, v, want, want, false, func(r RedisResult) (any, error) { return r.AsStrSlice() })
			c.expect("ToArray", sh.name, cls, v, want, want, false, func(r RedisResult) (any, error) {
				a, err := r.ToArray()
				if err != nil {
					return nil, err
				}
				out := []string{}
				for i := range a {
					s, err := a[i].ToString()
					if err != nil && !IsRedisNil(err) {
						return nil, err
					}
					if IsRedisNil(err) != (kids[i].typ == '_') {
						return nil, fmt.Errorf("element %d nil-ness differs", i)
					}
					out = append(out, s)
				}
				return out, nil
			})
		}
	})
	// integers: encoded as RESP integers or as decimal strings (mixed)
	ints := []int64{0, 1, -1, 7, math.MaxInt64}
	c16seqs(len(ints)*2, maxLen, func(idx []int) {
		var kids []c16v
		want := []int64{}
		cls := "plain"
		for _, i := range idx {
			n := ints[i%len(ints)]
			if i >= len(ints) {
				kids = append(kids, c16str(strconv.FormatInt(n, 10)))
				cls = "integers as strings"
			} else {
				kids = append(kids, c16int(n))
			}
			want = append(want, n)
		}
		v := c16arr(kids...)
		c.expect("AsIntSlice", "array", cls, v, want, want, false, func(r RedisResult) (any, error) { return r.AsIntSlice() })
	})
	// floats: RESP3 doubles or strings
	floats := []string{"0", "1.5", "-1", "inf", "-inf", "3"}
	c16seqs(len(floats)*2, maxLen, func(idx []int) {
		var kids []c16v
		want := []float64{}
		cls := "plain"
		for _, i := range idx {
			t := floats[i%len(floats)]
			f, _ := c16refFloat(t)
			if i >= len(floats) {
				kids = append(kids, c16dbl(t))
				cls = "RESP3 doubles"
			} else {
				kids = append(kids, c16str(t))
			}
			want = append(want, f)
		}
		v := c16arr(kids...)
		c.expect("AsFloatSlice", "array", cls, v, want, want, false, func(r RedisResult) (any, error) { return r.AsFloatSlice() })
	})
	// booleans: RESP3 booleans or 0/1 integers (SMISMEMBER)
	c16seqs(4, maxLen, func(idx []int) {
		var kids []c16v
		want := []bool{}
		for _, i := range idx {
			b := i%2 == 1
			if i >= 2 {
				kids = append(kids, c16bool(b))
			} else {
				kids = append(kids, c16int(int64(i%2)))
			}
			want = append(want, b)
		}
		v := c16arr(kids...)
		c.expect("AsBoolSlice", "array", "plain", v, want, want, false, func(r RedisResult) (any, error) { return r.AsBoolSlice() })
	})
}

type c16pair struct{ K, V string }

func c16lastWins(ps []c16pair) map[string]string {
	m := map[string]string{}
	for _, p := range ps {
		m[p.K] = p.V
	}
	return m
}

func c16pairClass(ps []c16pair) string {
	seen := map[string]bool{}
	for _, p := range ps {
		if seen[p.K] {
			return "duplicate field"
		}
		seen[p.K] = true
	}
	return "plain"
}

func c16flat(ps []c16pair) []c16v {
	var kids []c16v
	for _, p := range ps {
		kids = append(kids, c16str(p.K), c16str(p.V))
	}
	return kids
}

func c16allPairs(keys, vals []string) []c16pair {
	var out []c16pair
	for _, k := range keys {
		for _, v := range vals {
			out = append(out, c16pair{k, v})
		}
	}
	return out
}

func (c *c16ctx) maps(maxLen int) {
	c.section = "map"
	alpha := c16allPairs([]string{"a", "b", ""}, []string{"", "1", "x"})
	c16seqs(len(alpha), maxLen, func(idx []int) {
		var ps []c16pair
		for _, i := range idx {
			ps = append(ps, alpha[i])
		}
		want := c16lastWins(ps)
		cls := c16pairClass(ps)
		for _, sh := range []struct {
			name string
			v    c16v
		}{{"RESP2 flat array", c16arr(c16flat(ps)...)}, {"RESP3 map", c16map(c16flat(ps)...)}} {
			c.expect("AsStrMap", sh.name, cls, sh.v, ps, want, false, func(r RedisResult) (any, error) { return r.AsStrMap() })
			toStr := func(m map[string]RedisMessage, err error) (any, error) {
				if err != nil {
					return nil, err
				}
				out := map[string]string{}
				for k, v := range m {
					if out[k], err = v.ToString(); err != nil {
						return nil, err
					}
				}
				return out, nil
			}
			c.expect("AsMap", sh.name, cls, sh.v, ps, want, false, func(r RedisResult) (any, error) { return toStr(r.AsMap()) })
			if sh.name == "RESP3 map" {
				c.expect("ToMap", sh.name, cls, sh.v, ps, want, false, func(r RedisResult) (any, error) { return toStr(r.ToMap()) })
			}
		}
	})
	// decimal integer text forms: the same text must mean the same number for
	// every integer accessor (strconv base 10 is the reference used by AsInt64)
	for _, t := range []string{"7", "010", "-010", "0x10", "0b11", "0o17", "1_0"} {
		t := t
		n, e := strconv.ParseInt(t, 10, 64)
		cls := "integer text with leading zero / base prefix / underscore"
		if t == "7" {
			cls = "plain"
		}
		wm := map[string]int64{"a": n}
		c.expect("AsIntMap", "RESP2 flat array", cls, c16arr(c16str("a"), c16str(t)), t, wm, e != nil, func(r RedisResult) (any, error) { return r.AsIntMap() })
		c.expect("AsIntMap", "RESP3 map", cls, c16map(c16str("a"), c16str(t)), t, wm, e != nil, func(r RedisResult) (any, error) { return r.AsIntMap() })
		c.expect("AsIntSlice", "array", cls, c16arr(c16str(t)), t, []int64{n}, e != nil, func(r RedisResult) (any, error) { return r.AsIntSlice() })
	}
	// integer valued maps (e.g. HGETALL of counters, PUBSUB NUMSUB)
	keys := []string{"a", "b"}
	ints := []int64{0, 1, -1, 10}
	c16seqs(len(keys)*len(ints)*2, maxLen, func(idx []int) {
		var kids []c16v
		want := map[string]int64{}
		cls := "plain"
		for _, i := range idx {
			asStr := i%2 == 1
			k := keys[(i/2)%len(keys)]
			n := ints[(i/2)/len(keys)]
			if _, dup := want[k]; dup {
				cls = "duplicate field"
			}
			want[k] = n
			if asStr {
				kids = append(kids, c16str(k), c16str(strconv.FormatInt(n, 10)))
			} else {
				kids = append(kids, c16str(k), c16int(n))
			}
		}
		c.expect("AsIntMap", "RESP2 flat array", cls, c16arr(kids...), want, want, false, func(r RedisResult) (any, error) { return r.AsIntMap() })
		c.expect("AsIntMap", "RESP3 map", cls, c16map(kids...), want, want, false, func(r RedisResult) (any, error) { return r.AsIntMap() })
	})
}

type c16zs struct{ M, S string }

func (c *c16ctx) zscores(maxLen int) {
	c.section = "zscore"
	var alpha []c16zs
	for _, m := range []string{"a", "b", "", "1"} {
		for _, s := range []string{"0", "1.5", "-1", "inf", "-inf"} {
			alpha = append(alpha, c16zs{m, s})
		}
	}
	c16seqs(len(alpha), maxLen, func(idx []int) {
		want := []ZScore{}
		var flat2, nested2, nested3, flat3 []c16v
		cls := "plain"
		for _, i := range idx {
			z := alpha[i]
			f, _ := c16refFloat(z.S)
			want = append(want, ZScore{Member: z.M, Score: f})
			flat2 = append(flat2, c16str(z.M), c16str(z.S))
			flat3 = append(flat3, c16str(z.M), c16dbl(z.S))
			nested2 = append(nested2, c16arr(c16str(z.M), c16str(z.S)))
			nested3 = append(nested3, c16arr(c16str(z.M), c16dbl(z.S)))
			if z.M == "" || z.M == "1" {
				cls = "empty or numeric member"
			}
		}
		get := func(r RedisResult) (any, error) { return r.AsZScores() }
		c.expect("AsZScores", "RESP2 flat [m,s,...]", cls, c16arr(flat2...), want, want, false, get)
		c.expect("AsZScores", "RESP3 [[m,double],...]", cls, c16arr(nested3...), want, want, false, get)
		c.expect("AsZScores", "RESP2 nested [[m,s],...]", cls, c16arr(nested2...), want, want, false, get)
		if len(idx) == 1 {
			one := func(r RedisResult) (any, error) { return r.AsZScore() }
			c.expect("AsZScore", "RESP2 [m,s]", cls, c16arr(flat2...), want[0], want[0], false, one)
			c.expect("AsZScore", "RESP3 [m,double]", cls, c16arr(flat3...), want[0], want[0], false, one)
		}
		if len(idx) >= 1 {
			for _, key := range []string{"k", ""} {
				w := KeyZScores{Key: key, Values: want}
				pop := func(r RedisResult) (any, error) { return r.AsZMPop() }
				c.expect("AsZMPop", "RESP2 [key,[[m,s],...]]", cls, c16arr(c16str(key), c16arr(nested2...)), w, w, false, pop)
				c.expect("AsZMPop", "RESP3 [key,[[m,double],...]]", cls, c16arr(c16str(key), c16arr(nested3...)), w, w, false, pop)
			}
		}
	})
}

func (c *c16ctx) lmpop(maxLen int) {
	c.section = "lmpop"
	vals := []string{"", "a", "b", "1"}
	c16seqs(len(vals), maxLen, func(idx []int) {
		if len(idx) == 0 {
			return
		}
		want := []string{}
		var kids []c16v
		cls := "plain"
		seen := map[int]bool{}
		for _, i := range idx {
			want = append(want, vals[i])
			kids = append(kids, c16str(vals[i]))
			if seen[i] {
				cls = "duplicate element"
			}
			seen[i] = true
		}
		for _, key := range []string{"k", ""} {
			w := KeyValues{Key: key, Values: want}
			c.expect("AsLMPop", "[key,[v,...]]", cls, c16arr(c16str(key), c16arr(kids...)), w, w, false, func(r RedisResult) (any, error) { return r.AsLMPop() })
		}
	})
}

func (c *c16ctx) scan(maxLen int) {
	c.section = "scan"
	vals := []string{"", "a", "b", "1"}
	for _, cur := range []uint64{0, 1, 17, math.MaxInt64 + 1, math.MaxUint64} {
		cur := cur
		c16seqs(len(vals), maxLen, func(idx []int) {
			want := ScanEntry{Cursor: cur, Elements: []string{}}
			var kids []c16v
			cls := "plain"
			if cur > math.MaxInt64 {
				cls = "cursor above MaxInt64"
			}
			for _, i := range idx {
				want.Elements = append(want.Elements, vals[i])
				kids = append(kids, c16str(vals[i]))
			}
			v := c16arr(c16str(strconv.FormatUint(cur, 10)), c16arr(kids...))
			c.expect("AsScanEntry", "[cursor,[e,...]]", cls, v, want, want, false, func(r RedisResult) (any, error) { return r.AsScanEntry() })
		})
	}
}

type c16entry struct {
	ID     string
	Nil    bool // fields are a null reply (deleted entry in XAUTOCLAIM / XCLAIM)
	Fields []c16pair
}

func (e c16entry) reply() c16v {
	if e.Nil {
		return c16arr(c16str(e.ID), c16null())
	}
	return c16arr(c16str(e.ID), c16arr(c16flat(e.Fields)...))
}

func (e c16entry) asEntry() XRangeEntry {
	if e.Nil {
		return XRangeEntry{ID: e.ID}
	}
	return XRangeEntry{ID: e.ID, FieldValues: c16lastWins(e.Fields)}
}

func (e c16entry) asSlice() XRangeSlice {
	s := XRangeSlice{ID: e.ID}
	if !e.Nil {
		s.FieldValues = []XRangeFieldValue{}
		for _, p := range e.Fields {
			s.FieldValues = append(s.FieldValues, XRangeFieldValue{Field: p.K, Value: p.V})
		}
	}
	return s
}

func (c *c16ctx) streams(maxFields, maxEntries int) {
	c.section = "stream"
	pairs := c16allPairs([]string{"f", "g"}, []string{"", "x", "y"})
	var entries []c16entry
	for _, id := range []string{"1-0", "2-1"} {
		entries = append(entries, c16entry{ID: id, Nil: true})
		c16seqs(len(pairs), maxFields, func(idx []int) {
			e := c16entry{ID: id}
			for _, i := range idx {
				e.Fields = append(e.Fields, pairs[i])
			}
			entries = append(entries, e)
		})
	}
	ecls := func(es ...c16entry) string {
		cls := "plain"
		for _, e := range es {
			if e.Nil {
				return "entry with null fields"
			}
			if c16pairClass(e.Fields) != "plain" {
				cls = "duplicate field"
			}
		}
		return cls
	}
	for _, e := range entries {
		e := e
		c.expect("AsXRangeEntry", "[id,[f,v,...]]", ecls(e), e.reply(), e, e.asEntry(), false, func(r RedisResult) (any, error) { return r.AsXRangeEntry() })
		c.expect("AsXRangeSlice", "[id,[f,v,...]]", ecls(e), e.reply(), e, e.asSlice(), false, func(r RedisResult) (any, error) { return r.AsXRangeSlice() })
	}
	// entry lists and XREAD; to keep the product small the entry alphabet of
	// lists is every 3rd entry plus all entries with duplicate fields / nil
	var short []c16entry
	for i, e := range entries {
		if len(e.Fields) <= 2 && (i%3 == 0 || e.Nil || c16pairClass(e.Fields) != "plain") {
			short = append(short, e)
		}
	}
	var lists [][]c16entry
	c16seqs(len(short), maxEntries, func(idx []int) {
		l := []c16entry{}
		for _, i := range idx {
			l = append(l, short[i])
		}
		lists = append(lists, l)
	})
	listReply := func(l []c16entry) c16v {
		var kids []c16v
		for _, e := range l {
			kids = append(kids, e.reply())
		}
		return c16arr(kids...)
	}
	wantE := func(l []c16entry) []XRangeEntry {
		out := []XRangeEntry{}
		for _, e := range l {
			out = append(out, e.asEntry())
		}
		return out
	}
	wantS := func(l []c16entry) []XRangeSlice {
		out := []XRangeSlice{}
		for _, e := range l {
			out = append(out, e.asSlice())
		}
		return out
	}
	for li, l := range lists {
		l := l
		if !c.r.Mine(li) {
			continue
		}
		c.expect("AsXRange", "[[id,[f,v,...]],...]", ecls(l...), listReply(l), l, wantE(l), false, func(r RedisResult) (any, error) { return r.AsXRange() })
		c.expect("AsXRangeSlices", "[[id,[f,v,...]],...]", ecls(l...), listReply(l), l, wantS(l), false, func(r RedisResult) (any, error) { return r.AsXRangeSlices() })
	}
	// XREAD: one or two distinct streams
	step := 1
	if len(lists) > 60 {
		step = len(lists) / 60
	}
	var sub [][]c16entry
	for i := 0; i < len(lists); i += step {
		sub = append(sub, lists[i])
	}
	xread := func(names []string, ls [][]c16entry) {
		var r2, r3 []c16v
		we := map[string][]XRangeEntry{}
		ws := map[string][]XRangeSlice{}
		var all []c16entry
		for i, n := range names {
			r2 = append(r2, c16arr(c16str(n), listReply(ls[i])))
			r3 = append(r3, c16str(n), listReply(ls[i]))
			we[n], ws[n] = wantE(ls[i]), wantS(ls[i])
			all = append(all, ls[i]...)
		}
		cls := ecls(all...)
		for _, sh := range []struct {
			name string
			v    c16v
		}{{"RESP2 [[stream,entries],...]", c16arr(r2...)}, {"RESP3 {stream:entries}", c16map(r3...)}} {
			c.expect("AsXRead", sh.name, cls, sh.v, names, we, false, func(r RedisResult) (any, error) { return r.AsXRead() })
			c.expect("AsXReadSlices", sh.name, cls, sh.v, names, ws, false, func(r RedisResult) (any, error) { return r.AsXReadSlices() })
		}
	}
	for i, a := range sub {
		if !c.r.Mine(i) {
			continue
		}
		xread([]string{"s1"}, [][]c16entry{a})
		for _, b := range sub {
			xread([]string{"s1", "s2"}, [][]c16entry{a, b})
		}
	}
}

// ---- FT.SEARCH / FT.AGGREGATE

type c16ftdoc struct {
	Key    string
	Score  string
	Fields []c16pair
}

func c16docMap(ps []c16pair) map[string]string {
	if ps == nil {
		return nil
	}
	return c16lastWins(ps)
}

func (c *c16ctx) ftsearch(maxDocs int) {
	c.section = "ftsearch"
	keys := []string{"doc:a", "b", "1", "2.5"}
	scores := []string{"1", "0.5", "0"}
	// the last field set stands for a NULL content element (the document expired or was deleted while the query ran)
	c16nullFields := []c16pair{{"\x00null", ""}}
	fieldSets := [][]c16pair{{}, {{"t", "x"}}, {{"t", ""}, {"n", "1"}}, {{"", "v"}}, c16nullFields}
	type opt struct{ withScores, noContent bool }
	for oi, o := range []opt{{false, false}, {true, false}, {false, true}, {true, true}} {
		var docAlpha []c16ftdoc
		for _, k := range keys {
			ss := []string{""}
			if o.withScores {
				ss = scores
			}
			fs := [][]c16pair{nil}
			if !o.noContent {
				fs = fieldSets
			}
			for _, s := range ss {
				for _, f := range fs {
					docAlpha = append(docAlpha, c16ftdoc{k, s, f})
				}
			}
		}
		item := 0
		c16seqs(len(docAlpha), maxDocs, func(idx []int) {
			item++
			if !c.r.Mine(item) {
				return
			}
			// distinct keys only (a search never returns a document twice)
			seen := map[string]bool{}
			for _, i := range idx {
				if seen[docAlpha[i].Key] {
					return
				}
				seen[docAlpha[i].Key] = true
			}
			for _, extra := range []int64{0, 5} { // total may exceed the page (LIMIT)
				total := int64(len(idx)) + extra
				r2 := []c16v{c16int(total)}
				var recs []c16v
				want := []FtSearchDoc{}
				cls := "plain"
				hasNull := false
				for _, i := range idx {
					d := docAlpha[i]
					isNull := len(d.Fields) == 1 && d.Fields[0].K == "\x00null"
					w := FtSearchDoc{Key: d.Key, Doc: c16docMap(d.Fields)}
					if isNull {
						w.Doc = map[string]string{}
						hasNull = true
					}
					r2 = append(r2, c16str(d.Key))
					rec := []c16v{c16str("id"), c16str(d.Key)}
					if o.withScores {
						w.Score, _ = c16refFloat(d.Score)
						r2 = append(r2, c16str(d.Score))
						rec = append(rec, c16str("score"), c16dbl(d.Score))
					}
					if !o.noContent && isNull {
						r2 = append(r2, c16null())
						rec = append(rec, c16str("extra_attributes"), c16map())
					} else if !o.noContent {
						r2 = append(r2, c16arr(c16flat(d.Fields)...))
						rec = append(rec, c16str("extra_attributes"), c16map(c16flat(d.Fields)...))
					}
					rec = append(rec, c16str("values"), c16arr())
					recs = append(recs, c16map(rec...))
					want = append(want, w)
					if _, ok := c16refFloat(d.Key); ok {
						cls = "numeric document key"
					}
				}
				r3 := c16map(c16str("attributes"), c16arr(), c16str("error"), c16arr(), c16str("total_results"), c16int(total),
					c16str("format"), c16str("STRING"), c16str("results"), c16arr(recs...))
				oname := fmt.Sprintf("withscores=%v nocontent=%v", o.withScores, o.noContent)
				type res struct {
					Total int64
					Docs  []FtSearchDoc
				}
				w := res{total, want}
				get := func(r RedisResult) (any, error) {
					t, d, err := r.AsFtSearch()
					if d == nil {
						d = []FtSearchDoc{}
					}
					return res{t, d}, err
				}
				cl := cls
				if cl == "plain" && len(idx) == 0 {
					cl = "no documents"
				}
				if hasNull && cl == "plain" {
					cl = "null content element"
				}
				c.expect("AsFtSearch", "RESP2 flat "+oname, cl, c16arr(r2...), w, w, false, get)
				if !hasNull {
					c.expect("AsFtSearch", "RESP3 map "+oname, cl, r3, w, w, false, get)
				}
			}
		})
		_ = oi
	}
}

func (c *c16ctx) ftaggregate(maxRows int) {
	c.section = "ftaggregate"
	rows := [][]c16pair{{}, {{"g", "x"}}, {{"g", ""}, {"n", "1"}}, {{"g", "x"}, {"g", "y"}}, {{"n", "1.5"}}}
	type res struct {
		Cursor, Total int64
		Rows          []map[string]string
	}
	c16seqs(len(rows), maxRows, func(idx []int) {
		for _, extra := range []int64{0, 3} {
			total := int64(len(idx)) + extra
			r2 := []c16v{c16int(total)}
			var recs []c16v
			want := []map[string]string{}
			cls := "plain"
			for _, i := range idx {
				r2 = append(r2, c16arr(c16flat(rows[i])...))
				recs = append(recs, c16map(c16str("extra_attributes"), c16map(c16flat(rows[i])...), c16str("values"), c16arr()))
				want = append(want, c16lastWins(rows[i]))
				if c16pairClass(rows[i]) != "plain" {
					cls = "duplicate field"
				}
			}
			if len(idx) == 0 {
				cls = "no rows"
			}
			r3 := c16map(c16str("attributes"), c16arr(), c16str("error"), c16arr(), c16str("total_results"), c16int(total),
				c16str("format"), c16str("STRING"), c16str("results"), c16arr(recs...))
			w := res{0, total, want}
			get := func(r RedisResult) (any, error) {
				t, d, err := r.AsFtAggregate()
				if d == nil {
					d = []map[string]string{}
				}
				return res{0, t, d}, err
			}
			c.expect("AsFtAggregate", "RESP2 flat", cls, c16arr(r2...), w, w, false, get)
			c.expect("AsFtAggregate", "RESP3 map", cls, r3, w, w, false, get)
			for _, cur := range []int64{0, 7} {
				wc := res{cur, total, want}
				getc := func(r RedisResult) (any, error) {
					cu, t, d, err := r.AsFtAggregateCursor()
					if d == nil {
						d = []map[string]string{}
					}
					return res{cu, t, d}, err
				}
				c.expect("AsFtAggregateCursor", "RESP2 [flat,cursor]", cls, c16arr(c16arr(r2...), c16int(cur)), wc, wc, false, getc)
				c.expect("AsFtAggregateCursor", "RESP3 [map,cursor]", cls, c16arr(r3, c16int(cur)), wc, wc, false, getc)
			}
		}
	})
}

// ---- GEOSEARCH

func (c *c16ctx) geo(maxLocs int) {
	c.section = "geo"
	type loc struct {
		Name, Dist string
		Hash       int64
		Lon, Lat   string
	}
	var alpha []loc
	for _, n := range []string{"a", "1", ""} {
		alpha = append(alpha, loc{n, "0.0000", 0, "0", "0"}, loc{n, "1.5", 3471579339700058, "13.361389", "38.115556"})
	}
	for mask := 0; mask < 8; mask++ {
		withDist, withHash, withCoord := mask&1 != 0, mask&2 != 0, mask&4 != 0
		c16seqs(len(alpha), maxLocs, func(idx []int) {
			want := []GeoLocation{}
			var r2, r3 []c16v
			cls := "plain"
			for _, i := range idx {
				l := alpha[i]
				w := GeoLocation{Name: l.Name}
				e2 := []c16v{c16str(l.Name)}
				e3 := []c16v{c16str(l.Name)}
				if withDist {
					w.Dist, _ = c16refFloat(l.Dist)
					e2 = append(e2, c16str(l.Dist))
					e3 = append(e3, c16dbl(l.Dist))
				}
				if withHash {
					w.GeoHash = l.Hash
					e2 = append(e2, c16int(l.Hash))
					e3 = append(e3, c16int(l.Hash))
				}
				if withCoord {
					w.Longitude, _ = c16refFloat(l.Lon)
					w.Latitude, _ = c16refFloat(l.Lat)
					e2 = append(e2, c16arr(c16str(l.Lon), c16str(l.Lat)))
					e3 = append(e3, c16arr(c16dbl(l.Lon), c16dbl(l.Lat)))
				}
				if mask == 0 {
					r2 = append(r2, c16str(l.Name))
					r3 = append(r3, c16str(l.Name))
				} else {
					r2 = append(r2, c16arr(e2...))
					r3 = append(r3, c16arr(e3...))
				}
				want = append(want, w)
				if l.Name == "" {
					cls = "empty member name"
				} else if l.Name == "1" && cls == "plain" {
					cls = "numeric member name"
				}
			}
			oname := fmt.Sprintf("withdist=%v withhash=%v withcoord=%v", withDist, withHash, withCoord)
			get := func(r RedisResult) (any, error) { return r.AsGeosearch() }
			c.expect("AsGeosearch", "RESP2 "+oname, cls, c16arr(r2...), want, want, false, get)
			c.expect("AsGeosearch", "RESP3 "+oname, cls, c16arr(r3...), want, want, false, get)
		})
	}
}

// ---- DecodeSliceOfJSON

type c16jdoc struct {
	A int    `json:"a"`
	S string `json:"s,omitempty"`
}

func (c *c16ctx) jsonSlices(maxLen int) {
	c.section = "json"
	type el struct {
		nul  bool
		text string
		doc  c16jdoc
	}
	elems := []el{{nul: true}, {text: `{"a":0}`}, {text: `{"a":1}`, doc: c16jdoc{A: 1}}, {text: `{"a":-1,"s":"x"}`, doc: c16jdoc{A: -1, S: "x"}}, {text: `{"s":""}`}, {text: `{}`}}
	c16seqs(len(elems), maxLen, func(idx []int) {
		want := []c16jdoc{}
		var kids []c16v
		cls := "plain"
		for _, i := range idx {
			e := elems[i]
			if e.nul {
				kids = append(kids, c16null())
				cls = "null element (missing key)"
			} else {
				kids = append(kids, c16str(e.text))
			}
			want = append(want, e.doc)
		}
		c.expect("DecodeSliceOfJSON", "array of JSON strings", cls, c16arr(kids...), want, want, false, func(r RedisResult) (any, error) {
			var out []c16jdoc
			err := DecodeSliceOfJSON(r, &out)
			if out == nil {
				out = []c16jdoc{}
			}
			return out, err
		})
		// the destination is reused: it already holds documents of an earlier reply and has room for this one
		c.expect("DecodeSliceOfJSON (reused destination)", "array of JSON strings", cls, c16arr(kids...), want, want, false, func(r RedisResult) (any, error) {
			out := make([]c16jdoc, 0, 8)
			for i := 0; i < 5; i++ {
				out = append(out, c16jdoc{A: 90 + i, S: "stale"})
			}
			err := DecodeSliceOfJSON(r, &out)
			if out == nil {
				out = []c16jdoc{}
			}
			return out, err
		})
		wantP := make([]*c16jdoc, len(idx))
		for k, i := range idx {
			if !elems[i].nul {
				d := elems[i].doc
				wantP[k] = &d
			}
		}
		c.expect("DecodeSliceOfJSON (reused destination of pointers)", "array of JSON strings", cls, c16arr(kids...), wantP, wantP, false, func(r RedisResult) (any, error) {
			out := make([]*c16jdoc, 0, 8)
			for i := 0; i < 5; i++ {
				out = append(out, &c16jdoc{A: 90 + i, S: "stale"})
			}
			err := DecodeSliceOfJSON(r, &out)
			if out == nil {
				out = []*c16jdoc{}
			}
			return out, err
		})
	})
	// a broken document must surface as an error
	c.expect("DecodeSliceOfJSON", "array of JSON strings", "malformed element", c16arr(c16str(`{"a":1}`), c16str(`{`)), "malformed", nil, true, func(r RedisResult) (any, error) {
		var out []c16jdoc
		err := DecodeSliceOfJSON(r, &out)
		return out, err
	})
}

// ---------------------------------------------------------------- entry

func TestVerif_C16(t *testing.T) {
	vrun.Main(t, "C16", func(r *vrun.Run) {
		c := &c16ctx{r: r, sr: strings.NewReader("")}
		c.br = bufio.NewReaderSize(c.sr, 4096)
		if raw, ok := r.ReplayPayload(); ok {
			var p c16replay
			if err := json.Unmarshal(raw, &p); err != nil {
				panic(err)
			}
			c.only = &p
		}
		n := vrun.Pick(r, 2, 3)
		r.Bounds["entries_per_level"] = n
		r.Bounds["array_len"] = n + 1
		r.Rule = "data models (scalars over 37 texts incl. inf/-inf/nan/-nan/-0/1e309/int64 and uint64 limits; string/int/float/bool slices with null elements and duplicates; " +
			"field-value pair lists with duplicate keys; sorted-set (member,score) lists; stream entries with duplicate and null fields, XREAD with 1-2 streams; scan cursors incl. > MaxInt64; " +
			"LMPOP/ZMPOP; FT.SEARCH docs under the 4 WITHSCORES/NOCONTENT combinations incl. numeric document keys; FT.AGGREGATE rows with and without cursor; GEOSEARCH under the 8 " +
			"WITHDIST/WITHHASH/WITHCOORD subsets; JSON document slices with missing keys), all sequences up to entries_per_level entries, each encoded in the RESP2 and RESP3 reply shape, " +
			"wire text decoded by the real decoder, accessor output (through RedisResult) compared with the data. non-trivial = data with a tricky value (special float, duplicate field, null, numeric key...)"
		r.Assume("reply shapes are written from the Redis / RediSearch command documentation (RESP2: flat arrays, scores and coordinates as bulk strings; RESP3: maps and doubles)")
		r.Assume("float text is interpreted with strconv.ParseFloat plus '-nan' (printed by Redis on some platforms); 1e309 must be an error as strconv reports a range error")
		r.Assume("nil and empty maps/slices are treated as equal results")
		r.Note("verbatim strings: ToString returns the payload including the 'txt:' format prefix (rueidiscompat trims it itself); treated as by-design, not checked")
		if r.Mine(0) {
			c.scalars()
		}
		if r.Mine(1) {
			c.arrays(n + 1)
		}
		if r.Mine(2) {
			c.maps(n)
		}
		if r.Mine(3) {
			c.zscores(n)
		}
		if r.Mine(4) {
			c.lmpop(n + 1)
			c.scan(n)
		}
		c.streams(n, n)
		c.ftsearch(n)
		if r.Mine(5) {
			c.ftaggregate(n)
		}
		if r.Mine(6) {
			c.geo(n)
		}
		if r.Mine(7) {
			c.jsonSlices(n + 1)
		}
	})
}
