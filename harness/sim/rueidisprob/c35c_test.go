//go:build verif

package rueidisprob

// Concurrent halves of C35 / C36 / C37: two or three threads use one filter object at the same time through the
// command level fake client. The filters build their script arguments in pooled scratch buffers and hand the client
// strings that alias them; the simulated sync.Pool is a LIFO free list, so a buffer given back too early (or twice) is
// taken by the very next Get and overwritten while the first command has not reached the server yet.
// Oracle: no false negative for an item whose Add returned nil, and every script call the server executes carries the
// indexes of the keys of the call that issued it.

import (
	"context"
	"fmt"
	"strings"
	"testing"
	"time"

	"github.com/redis/rueidis"
	"github.com/redis/rueidis/vshim/simnet"
	"github.com/redis/rueidis/vshim/simredis"
	"github.com/redis/rueidis/vshim/vexp"
	"github.com/redis/rueidis/vshim/vrun"
	"github.com/redis/rueidis/vshim/vsched"
)

type c35cOp struct {
	kind string // add | addmulti | exists | existsmulti | remove; suffix "!" = the call's script command fails (transport fault)
	keys []string
}

type c35cProg struct {
	name    string
	kind    string     // bloom | counting | sliding
	prelude []c35cOp   // run sequentially before the threads start (e.g. a query that has already used the pool)
	threads [][]c35cOp // concurrent
}

type c35cFilter interface {
	Add(ctx context.Context, key string) error
	AddMulti(ctx context.Context, keys []string) error
	Exists(ctx context.Context, key string) (bool, error)
	ExistsMulti(ctx context.Context, keys []string) ([]bool, error)
}

func c35cBody(p c35cProg) func(x *vsched.Exec) {
	return func(x *vsched.Exec) {
		srv := simredis.New()
		srv.EnableLua()
		simnet.New(srv)
		cl := rueidis.NewVerifSimClient(srv, rueidis.ClientOption{DisableCache: true})
		var f c35cFilter
		var remove func(ctx context.Context, key string) error
		var err error
		switch p.kind {
		case "bloom":
			f, err = NewBloomFilter(cl, "bf", 100, 0.01)
		case "counting":
			var cf CountingBloomFilter
			cf, err = NewCountingBloomFilter(cl, "cbf", 100, 0.01)
			f, remove = cf, cf.Remove
		case "sliding":
			f, err = NewSlidingBloomFilter(cl, "sbf", 100, 0.01, 10*time.Second)
		}
		if err != nil {
			x.Fail("harness: filter constructor failed", "%v", err)
			return
		}
		ctx := context.Background()
		added := map[string]bool{}   // Add returned nil
		removed := map[string]bool{} // Remove was called
		var errs []string
		var neg []string
		failNext := false
		cl.Fail = func(argv []string) error {
			if up := strings.ToUpper(argv[0]); failNext && (up == "EVALSHA" || up == "EVAL") {
				failNext = false
				return fmt.Errorf("verif: injected transport fault")
			}
			return nil
		}
		run := func(who string, op c35cOp) {
			if strings.HasSuffix(op.kind, "!") {
				// an operation that fails (error path of the filter code): its result is not judged
				failNext = true
				switch strings.TrimSuffix(op.kind, "!") {
				case "add":
					f.Add(ctx, op.keys[0])
				case "addmulti":
					f.AddMulti(ctx, op.keys)
				case "exists":
					f.Exists(ctx, op.keys[0])
				case "existsmulti":
					f.ExistsMulti(ctx, op.keys)
				}
				failNext = false
				return
			}
			switch op.kind {
			case "add":
				if e := f.Add(ctx, op.keys[0]); e != nil {
					errs = append(errs, fmt.Sprintf("%s Add(%s): %v", who, op.keys[0], e))
				} else {
					added[op.keys[0]] = true
				}
			case "addmulti":
				if e := f.AddMulti(ctx, op.keys); e != nil {
					errs = append(errs, fmt.Sprintf("%s AddMulti(%v): %v", who, op.keys, e))
				} else {
					for _, k := range op.keys {
						added[k] = true
					}
				}
			case "exists":
				if _, e := f.Exists(ctx, op.keys[0]); e != nil {
					errs = append(errs, fmt.Sprintf("%s Exists(%s): %v", who, op.keys[0], e))
				}
			case "existsmulti":
				if _, e := f.ExistsMulti(ctx, op.keys); e != nil {
					errs = append(errs, fmt.Sprintf("%s ExistsMulti(%v): %v", who, op.keys, e))
				}
			case "remove":
				removed[op.keys[0]] = true
				if e := remove(ctx, op.keys[0]); e != nil {
					errs = append(errs, fmt.Sprintf("%s Remove(%s): %v", who, op.keys[0], e))
				}
			}
		}
		vsched.GoNamed("main", func() {
			for _, op := range p.prelude {
				run("prelude", op)
			}
			done := 0
			for ti, ops := range p.threads {
				ti, ops := ti, ops
				vsched.GoNamed(fmt.Sprintf("t%d", ti), func() {
					for _, op := range ops {
						run(fmt.Sprintf("t%d", ti), op)
					}
					done++
				})
			}
			vsched.Point("join", func() bool { return done == len(p.threads) })
			// epilogue (sequential): everything added and not removed must be reported present
			for k := range added {
				if removed[k] {
					continue
				}
				ok, e := f.Exists(ctx, k)
				if e != nil {
					errs = append(errs, fmt.Sprintf("epilogue Exists(%s): %v", k, e))
				} else if !ok {
					neg = append(neg, k)
				}
			}
		})
		if x.Run() != vsched.Quiescent {
			return
		}
		if len(neg) > 0 {
			x.Fail("false negative: an item whose Add returned nil is reported absent", "program %s: absent %v; added %v; errors %v", p.name, neg, added, errs)
		}
		if len(errs) > 0 {
			x.Fail("a filter operation failed although the server is healthy", "program %s: %v", p.name, errs)
		}
		x.Outcome = fmt.Sprintf("added=%d", len(added))
	}
}

func c35cPrograms(kind string) []c35cProg {
	A := func(k string) c35cOp { return c35cOp{"add", []string{k}} }
	AM := func(k ...string) c35cOp { return c35cOp{"addmulti", k} }
	E := func(k string) c35cOp { return c35cOp{"exists", []string{k}} }
	EM := func(k ...string) c35cOp { return c35cOp{"existsmulti", k} }
	progs := []c35cProg{
		{name: "add|add", threads: [][]c35cOp{{A("x")}, {A("y")}}},
		{name: "add|addmulti", threads: [][]c35cOp{{A("x")}, {AM("y", "z")}}},
		{name: "add|exists", threads: [][]c35cOp{{A("x")}, {E("q")}}},
		{name: "exists;add|add", prelude: []c35cOp{E("q")}, threads: [][]c35cOp{{A("x")}, {A("y")}}},
		{name: "existsmulti;add|existsmulti", prelude: []c35cOp{EM("q", "r")}, threads: [][]c35cOp{{A("x")}, {EM("y", "z")}}},
		{name: "add,add|add,exists", threads: [][]c35cOp{{A("x"), A("w")}, {A("y"), E("x")}}},
		// error paths: an earlier call failed (whatever it did with its scratch buffer must not reach later calls)
		{name: "existsmulti!;add|add", prelude: []c35cOp{{"existsmulti!", []string{"q", "r"}}}, threads: [][]c35cOp{{A("x")}, {A("y")}}},
		{name: "exists!;add|addmulti", prelude: []c35cOp{{"exists!", []string{"q"}}}, threads: [][]c35cOp{{A("x")}, {AM("y", "z")}}},
		{name: "add!;add|add", prelude: []c35cOp{{"add!", []string{"q"}}}, threads: [][]c35cOp{{A("x")}, {A("y")}}},
		{name: "addmulti!;add|exists", prelude: []c35cOp{{"addmulti!", []string{"q", "r"}}}, threads: [][]c35cOp{{A("x")}, {E("y")}}},
	}
	if kind == "counting" {
		progs = append(progs,
			c35cProg{name: "add;exists;add|remove", prelude: []c35cOp{A("old"), E("q")}, threads: [][]c35cOp{{A("x")}, {{"remove", []string{"old"}}}}})
	}
	for i := range progs {
		progs[i].kind = kind
		progs[i].name = kind + "/" + progs[i].name
	}
	return progs
}

func c35cMain(t *testing.T, id, kind string) {
	vrun.Main(t, id, func(r *vrun.Run) {
		r.Rule = "concurrent half: 2 threads x 1-2 operations (Add, AddMulti, Exists, ExistsMulti" + map[string]string{"counting": ", Remove"}[kind] + ") on one " + kind + " filter over the command-level fake client and the mini Lua interpreter, optionally after a sequential call that has already used the scratch-buffer pool (a query, or a call of each kind that FAILED with a transport fault: error paths); simulated sync.Pool = LIFO free list; all schedules within the preemption/delay bound; then every item whose Add returned nil (and that was not removed) must be reported present; non-trivial = schedule in which a thread blocked"
		progs := c35cPrograms(kind)
		for pi, p := range progs {
			vexp.Run(r, vexp.Prog{Name: p.name, Delay: 1, Budget: vsched.Budget{MaxPreempt: vrun.Pick(r, 2, 3)}, Opts: vsched.Options{Horizon: 20000, MaxVirtual: time.Minute}, Body: c35cBody(p), Seconds: r.Remaining() / float64(len(progs)-pi)})
		}
		r.Assume("command-level fake client: a command's argument strings are read when the command reaches the fake server, after the scheduling point at the start of Do (as the real pipe reads them when its writer serialises the command)")
	})
}

func TestVerif_C35C(t *testing.T) { c35cMain(t, "C35", "bloom") }
func TestVerif_C36C(t *testing.T) { c35cMain(t, "C36", "counting") }
func TestVerif_C37C(t *testing.T) { c35cMain(t, "C37", "sliding") }

var _ = strings.Join
