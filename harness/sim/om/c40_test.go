//go:build verif

package om

import (
	"context"
	"encoding/json"
	"errors"
	"fmt"
	"math"
	"reflect"
	"strconv"
	"strings"
	"testing"
	"time"

	"github.com/redis/rueidis"
	"github.com/redis/rueidis/vshim/simnet"
	"github.com/redis/rueidis/vshim/simredis"
	"github.com/redis/rueidis/vshim/vexp"
	"github.com/redis/rueidis/vshim/vrun"
	"github.com/redis/rueidis/vshim/vsched"
)

// C40: object-mapping saves are optimistic and round-trip.
//
// Part A (schedules): 2-3 threads Save copies of the same versioned entity through a hash repository and a JSON
// repository backed by command-level fake client sessions on one fake Redis; the mini-Lua interpreter executes the
// save scripts the package really sends (EVALSHA -> NOSCRIPT -> EVAL from an empty script cache, optional script
// flush thread), the fake's JSON.SET/JSON.GET/JSON.NUMINCRBY keep the document. All interleavings within the
// preemption bound. Oracle: a reference version counter fed with the script executions in server order decides
// which Save must succeed; every other Save must return ErrVersionMismatch; the winner's struct has version+1, a
// loser's struct is unchanged; at most one success per base version (exactly one when all savers start from the
// stored version); the stored entity read back by an observer equals the last winner's entity.
//
// Part B (inputs): for every field type of the alphabet below a one-field entity c40E[F] is saved, fetched with
// Fetch and FetchCache (miss and hit) and compared; then every ordered pair (old value -> new value) is saved on
// top of each other and fetched again (an update must store every field, too). Equality: reflect based, nil and
// empty slices/maps are considered equal, time.Time is compared with Equal, floats by bit pattern. A mixed entity
// with six fields goes through all pairs of fields x all pairs of their six values. Types that a repository kind
// rejects when the repository is built and values that Save refuses (encoding/json: unsupported value) are
// recorded as outcomes, not as violations.

// ---------------------------------------------------------------------------------------------- part A

type c40A struct {
	Key  string `json:"key" redis:",key"`
	Ver  int64  `json:"ver" redis:",ver"`
	Name string `json:"name"`
	N    int64  `json:"n"`
	Tag  c40Tag `json:"tag"` // a struct-kind field (stored JSON-encoded in a hash); always carries the same text as Name
}

type c40Tag struct {
	V string `json:"v"`
}

type c40cfg struct {
	name    string
	json    bool
	initial int      // number of sequential saves before the threads start (0 = the key does not exist)
	threads []string // save | save2 (two saves of the same struct in a row) | fetchsave (Fetch, change, Save)
	perThr  bool     // own repository + client session per thread
	flusher bool
	same    bool // every Save starts from the stored version: exactly one must win
	p       int
}

type c40save struct {
	thr      int
	base     int64
	err      error
	verAfter int64
	name     string
	n        int64
	fetched  bool
}

type c40exec struct {
	thr     int
	base    string
	success bool
	reply   string
}

func c40body(c c40cfg) func(x *vsched.Exec) {
	return func(x *vsched.Exec) {
		srv := simredis.New()
		srv.EnableLua()
		simnet.New(srv)
		ctx := context.Background()
		mkRepo := func() Repository[c40A] {
			cl := rueidis.NewVerifSimClient(srv, rueidis.ClientOption{DisableCache: true})
			if c.json {
				return NewJSONRepository("p", c40A{}, cl)
			}
			return NewHashRepository("p", c40A{}, cl)
		}
		shared := mkRepo()
		base := &c40A{Key: "e1", Name: "init", Tag: c40Tag{V: "init"}}
		for i := 0; i < c.initial; i++ {
			base.N = int64(i)
			if err := shared.Save(ctx, base); err != nil {
				x.Fail("initial save failed", "%v", err)
				return
			}
		}
		if base.Ver != int64(c.initial) {
			x.Fail("sequential saves do not advance the version by one each", "after %d saves the version is %d", c.initial, base.Ver)
			return
		}
		var execs []c40exec
		srv.AfterExec = func(s *simredis.Session, argv []string, r simredis.Reply) {
			if s.ID < 0 || !(argv[0] == "EVAL" || argv[0] == "EVALSHA") {
				return
			}
			if r.T == '-' && strings.HasPrefix(r.S, "NOSCRIPT") {
				return
			}
			e := c40exec{thr: vsched.CurID(), success: r.T == '$' || r.T == ':' || r.T == '+', reply: string(r.T) + r.S}
			if len(argv) > 5 {
				e.base = argv[5]
			}
			execs = append(execs, e)
		}
		var saves []*c40save
		thrOf := make([]int, len(c.threads))
		for i, kind := range c.threads {
			i, kind := i, kind
			repo := shared
			if c.perThr {
				repo = mkRepo()
			}
			ent := *base
			vsched.GoNamed(fmt.Sprintf("s%d", i), func() {
				thrOf[i] = vsched.CurID()
				do := func(e *c40A, fetched bool) {
					e.Tag = c40Tag{V: e.Name}
					s := &c40save{thr: vsched.CurID(), base: e.Ver, name: e.Name, n: e.N, fetched: fetched}
					saves = append(saves, s)
					s.err = repo.Save(ctx, e)
					s.verAfter = e.Ver
					if e.Name != s.name || e.N != s.n {
						x.Fail("Save changed a data field of the caller's struct", "%+v", *e)
					}
				}
				switch kind {
				case "save":
					ent.Name, ent.N = fmt.Sprintf("s%d", i), int64(100+i)
					do(&ent, false)
				case "save2":
					ent.Name, ent.N = fmt.Sprintf("s%d", i), int64(100+i)
					do(&ent, false)
					ent.Name, ent.N = fmt.Sprintf("s%d-again", i), int64(200+i)
					do(&ent, false)
				case "fetchsave":
					got, err := repo.Fetch(ctx, "e1")
					if err != nil {
						if IsRecordNotFound(err) {
							got = &c40A{Key: "e1"}
						} else {
							x.Fail("Fetch failed", "%v", err)
							return
						}
					}
					got.Name, got.N = fmt.Sprintf("f%d", i), int64(300+i)
					do(got, true)
				}
			})
		}
		if c.flusher {
			vsched.GoNamed("flusher", func() {
				vsched.Point("flush", nil)
				srv.ScriptFlush()
			})
		}
		if st := x.Run(); st != vsched.Quiescent {
			return
		}
		srv.AfterExec = nil
		desc := func() string {
			var b strings.Builder
			for i, e := range execs {
				fmt.Fprintf(&b, "\n  exec#%d thr=%d base=%s reply=%s", i, e.thr, e.base, e.reply)
			}
			for _, s := range saves {
				fmt.Fprintf(&b, "\n  save thr=%d base=%d name=%s -> err=%v ver=%d", s.thr, s.base, s.name, s.err, s.verAfter)
			}
			return b.String()
		}
		// reference: version counter in server order
		exists, V := c.initial > 0, int64(c.initial)
		var winner *c40save
		seen := map[int]int{}
		wins := map[int64]int{}
		total := 0
		outcome := ""
		for _, e := range execs {
			var mine []*c40save
			for _, s := range saves {
				if s.thr == e.thr {
					mine = append(mine, s)
				}
			}
			k := seen[e.thr]
			seen[e.thr]++
			if k >= len(mine) {
				x.Fail("more script executions than Save calls", "%s", desc())
				return
			}
			s := mine[k]
			if e.base != strconv.FormatInt(s.base, 10) {
				x.Fail("script argument is not the caller's version", "sent %q, struct had %d%s", e.base, s.base, desc())
				return
			}
			want := !exists || s.base == V
			if want {
				if s.err != nil {
					x.Fail("Save based on the stored version failed", "stored version %d (exists=%v), base %d: %v%s", V, exists, s.base, s.err, desc())
					return
				}
				if s.verAfter != s.base+1 {
					x.Fail("successful Save did not advance the caller's version by exactly one", "base %d, after %d%s", s.base, s.verAfter, desc())
					return
				}
				exists, V, winner = true, s.base+1, s
				wins[s.base]++
				total++
				outcome += fmt.Sprintf("W%d", s.thr)
			} else {
				if s.err == nil {
					x.Fail("Save based on a stale version succeeded", "stored version %d, base %d%s", V, s.base, desc())
					return
				}
				if !errors.Is(s.err, ErrVersionMismatch) {
					x.Fail("stale Save returned something else than ErrVersionMismatch", "%v%s", s.err, desc())
					return
				}
				if s.verAfter != s.base {
					x.Fail("failed Save changed the caller's version", "base %d, after %d%s", s.base, s.verAfter, desc())
					return
				}
				outcome += fmt.Sprintf("L%d", s.thr)
			}
			if wins[s.base] > 1 {
				x.Fail("two Saves based on the same version succeeded", "base %d%s", s.base, desc())
				return
			}
		}
		if len(execs) != len(saves) {
			x.Fail("a Save did not execute the script exactly once", "%d saves, %d executions%s", len(saves), len(execs), desc())
			return
		}
		if c.same && total != 1 {
			x.Fail("not exactly one of the concurrent Saves succeeded", "%d successes%s", total, desc())
			return
		}
		got, err := mkRepo().Fetch(ctx, "e1")
		if err != nil {
			x.Fail("observer Fetch failed", "%v%s", err, desc())
			return
		}
		if got.Ver != V {
			x.Fail("stored version is not the initial version plus the number of successful Saves", "stored %d, reference %d%s", got.Ver, V, desc())
			return
		}
		if winner != nil && (got.Name != winner.name || got.N != winner.n || got.Key != "e1" || got.Tag.V != winner.name) {
			x.Fail("stored fields are not those of the last successful Save", "stored %+v, winner %+v%s", *got, *winner, desc())
			return
		}
		x.Outcome = outcome
	}
}

func c40programs() []c40cfg {
	var out []c40cfg
	for _, js := range []bool{false, true} {
		k := "hash"
		if js {
			k = "json"
		}
		out = append(out,
			c40cfg{name: k + "/new/2 savers", json: js, threads: []string{"save", "save"}, same: true, p: 2},
			c40cfg{name: k + "/new/3 savers", json: js, threads: []string{"save", "save", "save"}, same: true, p: 2},
			c40cfg{name: k + "/v1/2 savers", json: js, initial: 1, threads: []string{"save", "save"}, same: true, p: 2},
			c40cfg{name: k + "/v2/3 savers, own sessions", json: js, initial: 2, threads: []string{"save", "save", "save"}, same: true, perThr: true, p: 2},
			c40cfg{name: k + "/v1/2 savers + script flush", json: js, initial: 1, threads: []string{"save", "save"}, same: true, flusher: true, p: 2},
			c40cfg{name: k + "/new/2 savers + script flush", json: js, threads: []string{"save", "save"}, same: true, flusher: true, p: 2},
			c40cfg{name: k + "/v1/save twice | save", json: js, initial: 1, threads: []string{"save2", "save"}, p: 2},
			c40cfg{name: k + "/v1/save | save | fetch+save", json: js, initial: 1, threads: []string{"save", "save", "fetchsave"}, p: 2},
			c40cfg{name: k + "/new/save | fetch+save", json: js, threads: []string{"save", "fetchsave"}, p: 2},
		)
	}
	return out
}

// ---------------------------------------------------------------------------------------------- part B

type c40E[F any] struct {
	Key string `json:"key" redis:",key"`
	Ver int64  `json:"ver" redis:",ver"`
	F   F      `json:"f"`
}

type c40Inner struct {
	A string         `json:"a"`
	B int64          `json:"b"`
	C []string       `json:"c"`
	D map[string]int `json:"d"`
	E float64        `json:"e"`
	T time.Time      `json:"t"`
}

type c40Mixed struct {
	Key string   `json:"key" redis:",key"`
	Ver int64    `json:"ver" redis:",ver"`
	S   string   `json:"s"`
	N   int64    `json:"n"`
	B   bool     `json:"b"`
	Bs  []byte   `json:"bs"`
	P   *string  `json:"p"`
	In  c40Inner `json:"in"`
}

type c40rtCase struct {
	RT   bool   `json:"rt"`
	Repo string `json:"repo"`
	Type string `json:"type"`
	I    int    `json:"i"`
	J    int    `json:"j"` // -1: single save of value I; otherwise value I is saved first and value J on top
	FI   int    `json:"fi,omitempty"`
	FJ   int    `json:"fj,omitempty"`
}

// c40eq: structural equality with nil == empty for slices and maps, time.Time by Equal, floats by bits.
func c40eq(a, b reflect.Value) bool {
	if a.Type() != b.Type() {
		return false
	}
	switch a.Kind() {
	case reflect.Ptr, reflect.Interface:
		if a.IsNil() || b.IsNil() {
			return a.IsNil() == b.IsNil()
		}
		return c40eq(a.Elem(), b.Elem())
	case reflect.Struct:
		if ta, ok := a.Interface().(time.Time); ok {
			return ta.Equal(b.Interface().(time.Time))
		}
		for i := 0; i < a.NumField(); i++ {
			if !c40eq(a.Field(i), b.Field(i)) {
				return false
			}
		}
		return true
	case reflect.Slice, reflect.Array:
		if a.Len() != b.Len() {
			return false
		}
		for i := 0; i < a.Len(); i++ {
			if !c40eq(a.Index(i), b.Index(i)) {
				return false
			}
		}
		return true
	case reflect.Map:
		if a.Len() != b.Len() {
			return false
		}
		for _, k := range a.MapKeys() {
			bv := b.MapIndex(k)
			if !bv.IsValid() || !c40eq(a.MapIndex(k), bv) {
				return false
			}
		}
		return true
	case reflect.Float32, reflect.Float64:
		return math.Float64bits(a.Float()) == math.Float64bits(b.Float())
	}
	return reflect.DeepEqual(a.Interface(), b.Interface())
}

func c40show(v any) string {
	s := fmt.Sprintf("%#v", v)
	if b, err := json.Marshal(v); err == nil {
		s = string(b)
	}
	if len(s) > 300 {
		s = s[:300] + "..."
	}
	return s
}

func c40unsupported(v any) bool {
	switch e := v.(type) {
	case *json.UnsupportedValueError:
		return true
	case *json.MarshalerError:
		return true
	case error:
		return strings.Contains(e.Error(), "unsupported value")
	case string:
		return strings.Contains(e, "unsupported value")
	}
	return false
}

type c40env[T any] struct {
	srv   *simredis.Server
	repo  Repository[T]
	kind  string
	tname string
}

func c40newEnv[T any](kind, tname string, schema T) (env *c40env[T], rejected string) {
	srv := simredis.New()
	srv.EnableLua()
	cl := rueidis.NewVerifSimClient(srv, rueidis.ClientOption{})
	env = &c40env[T]{srv: srv, kind: kind, tname: tname}
	p, _ := vrun.Catch(func() {
		if kind == "json" {
			env.repo = NewJSONRepository("p", schema, cl)
		} else {
			env.repo = NewHashRepository("p", schema, cl)
		}
	})
	if p != nil {
		return nil, fmt.Sprint(p)
	}
	return env, ""
}

// step saves *e (expected to reach version wantVer) and reads it back three ways. It returns a violation
// signature suffix ("" = fine) and detail, or outcome != "" when the value is refused by Save.
func c40step[T any](env *c40env[T], e *T, key string, wantVer int64, ver func(*T) int64) (sig, detail, refused string) {
	ctx := context.Background()
	var err error
	p, site := vrun.Catch(func() { err = env.repo.Save(ctx, e) })
	if p != nil {
		if c40unsupported(p) {
			return "", "", "Save panics: encoding/json unsupported value"
		}
		return "Save panics in " + site, fmt.Sprint(p), ""
	}
	if err != nil {
		if c40unsupported(err) {
			return "", "", "Save returns the encoding/json unsupported value error"
		}
		return "Save failed", err.Error(), ""
	}
	if ver(e) != wantVer {
		return "successful Save did not advance the version by exactly one", fmt.Sprintf("version %d want %d", ver(e), wantVer), ""
	}
	got, err := env.repo.Fetch(ctx, key)
	if err != nil {
		return "Fetch after a successful Save failed", err.Error(), ""
	}
	if !c40eq(reflect.ValueOf(got).Elem(), reflect.ValueOf(e).Elem()) {
		return "Fetch differs from the saved entity", fmt.Sprintf("saved   %s\nfetched %s\nstored  %s", c40show(e), c40show(got), c40stored(env.srv, env.kind, "p:"+key)), ""
	}
	for pass := 0; pass < 2; pass++ {
		got, err = env.repo.FetchCache(ctx, key, time.Minute)
		if err != nil {
			return "FetchCache after a successful Save failed", err.Error(), ""
		}
		if !c40eq(reflect.ValueOf(got).Elem(), reflect.ValueOf(e).Elem()) {
			return "FetchCache differs from the saved entity", fmt.Sprintf("pass %d saved %s fetched %s", pass, c40show(e), c40show(got)), ""
		}
	}
	return "", "", ""
}

func c40stored(srv *simredis.Server, kind, key string) string {
	if kind == "json" {
		return srv.Do("JSON.GET", key).S
	}
	r := srv.Do("HGETALL", key)
	var parts []string
	for i := 0; i+1 < len(r.A); i += 2 {
		parts = append(parts, fmt.Sprintf("%s=%q", r.A[i].S, r.A[i+1].S))
	}
	return strings.Join(parts, " ")
}

type c40typ struct {
	name string
	n    int
	run  func(r *vrun.Run, kind string, only *c40rtCase)
}

func c40reg[F any](name string, labels []string, vals []F) c40typ {
	if len(labels) != len(vals) {
		panic("c40: labels/values mismatch for " + name)
	}
	return c40typ{name: name, n: len(vals), run: func(r *vrun.Run, kind string, only *c40rtCase) {
		env, rejected := c40newEnv(kind, name, c40E[F]{})
		if env == nil {
			r.Evaluations++
			r.StateStr("B", kind, name, "schema")
			r.Outcome("B " + kind + "/" + name + ": rejected when the repository is built")
			if len(r.Notes) < 80 {
				r.Note(kind + " repository rejects field type " + name + ": " + rejected)
			}
			return
		}
		ver := func(e *c40E[F]) int64 { return e.Ver }
		for i := range vals {
			for j := -1; j < len(vals); j++ {
				if only != nil && (only.I != i || only.J != j) {
					continue
				}
				r.Evaluations++
				r.StateStr("B", kind, name, strconv.Itoa(i), strconv.Itoa(j))
				if j >= 0 {
					r.NonTrivialStr("B", kind, name, strconv.Itoa(i), strconv.Itoa(j))
				}
				key := fmt.Sprintf("k%dx%d", i, j+1)
				e := env.repo.NewEntity()
				if e.Key == "" || e.Ver != 0 {
					r.Violate(kind+": NewEntity does not return a keyed entity at version 0", fmt.Sprintf("%+v", e), c40rtCase{RT: true, Repo: kind, Type: name, I: i, J: j})
				}
				e.Key = key
				e.F = vals[i]
				what := "first save of " + labels[i]
				sig, detail, refused := c40step(env, e, key, 1, ver)
				if sig == "" && refused == "" && j >= 0 {
					e.F = vals[j]
					what = "update " + labels[i] + " -> " + labels[j]
					sig, detail, refused = c40step(env, e, key, 2, ver)
				}
				switch {
				case refused != "":
					r.Outcome("B " + kind + "/" + name + ": " + refused)
				case sig != "":
					r.Outcome("B " + kind + "/" + name + ": VIOLATION")
					full := fmt.Sprintf("%s/%s: %s", kind, name, sig)
					lastLabel := labels[i]
					if strings.HasPrefix(what, "update") {
						lastLabel = labels[j]
					}
					switch {
					case strings.HasPrefix(sig, "Fetch") && strings.HasPrefix(what, "update") && lastLabel == "nil" && labels[i] != "nil":
						full = kind + ": Save with a nil pointer field does not clear the previously stored value (Fetch returns the old value)"
					case strings.HasPrefix(sig, "Fetch") && strings.Contains(lastLabel, "unmarshalable"):
						full = kind + ": Save reports success but silently drops a field whose value encoding/json cannot encode"
					}
					r.Violate(full, fmt.Sprintf("field type %s, %s\n%s", name, what, detail), c40rtCase{RT: true, Repo: kind, Type: name, I: i, J: j})
				default:
					r.Outcome("B " + kind + "/" + name + ": round trip ok")
				}
				if r.WantSample() && j == 1 && i == 2 {
					r.Sample(map[string]any{"part": "B", "repo": kind, "type": name, "saved": c40show(e), "stored": c40stored(env.srv, kind, "p:"+key)})
				}
			}
		}
	}}
}

func c40ptr[T any](v T) *T { return &v }

func c40types() []c40typ {
	jst := time.FixedZone("JST", 9*3600)
	inner := c40Inner{A: "x\r\ny", B: -7, C: []string{"a", ""}, D: map[string]int{"k": 1, "": 2}, E: 0.1, T: time.Date(2024, 2, 29, 23, 59, 59, 999999999, jst)}
	innerInf := c40Inner{A: "inf", E: math.Inf(1)}
	f32den := math.Float32frombits(1)
	f64den := math.Float64frombits(1)
	return []c40typ{
		c40reg("string", []string{"empty", "ascii", "unicode", "CRLF", "NUL+quote+backslash", "html", "t"},
			[]string{"", "hello world", "héllo ✓ 日本語 \U0001F600", "line1\r\nline2\n", "a\x00b\"c\\d", "<a>&</a>", "t"}),
		c40reg("bool", []string{"false", "true"}, []bool{false, true}),
		c40reg("int64", []string{"0", "1", "-1", "min", "max"}, []int64{0, 1, -1, math.MinInt64, math.MaxInt64}),
		c40reg("int", []string{"0", "1", "-1", "min", "max"}, []int{0, 1, -1, math.MinInt, math.MaxInt}),
		c40reg("int8", []string{"0", "1", "-1", "min", "max"}, []int8{0, 1, -1, math.MinInt8, math.MaxInt8}),
		c40reg("int16", []string{"0", "1", "-1", "min", "max"}, []int16{0, 1, -1, math.MinInt16, math.MaxInt16}),
		c40reg("int32", []string{"0", "1", "-1", "min", "max"}, []int32{0, 1, -1, math.MinInt32, math.MaxInt32}),
		c40reg("uint", []string{"0", "1", "max"}, []uint{0, 1, math.MaxUint}),
		c40reg("uint8", []string{"0", "1", "max"}, []uint8{0, 1, math.MaxUint8}),
		c40reg("uint16", []string{"0", "1", "max"}, []uint16{0, 1, math.MaxUint16}),
		c40reg("uint32", []string{"0", "1", "max"}, []uint32{0, 1, math.MaxUint32}),
		c40reg("uint64", []string{"0", "1", "max"}, []uint64{0, 1, math.MaxUint64}),
		c40reg("float32", []string{"0", "-0", "0.1", "max", "denormal", "+Inf", "-Inf", "NaN"},
			[]float32{0, float32(math.Copysign(0, -1)), 0.1, math.MaxFloat32, f32den, float32(math.Inf(1)), float32(math.Inf(-1)), float32(math.NaN())}),
		c40reg("float64", []string{"0", "-0", "0.1", "max", "denormal", "+Inf", "-Inf", "NaN"},
			[]float64{0, math.Copysign(0, -1), 0.1, math.MaxFloat64, f64den, math.Inf(1), math.Inf(-1), math.NaN()}),
		c40reg("[]byte", []string{"nil", "empty", "ascii", "binary"}, [][]byte{nil, {}, []byte("abc"), {0, 255, 13, 10, 34, 92, 128}}),
		c40reg("[]float32", []string{"nil", "empty", "zero", "finite", "special"},
			[][]float32{nil, {}, {0}, {0.1, float32(math.Copysign(0, -1)), math.MaxFloat32, f32den}, {float32(math.Inf(1)), float32(math.Inf(-1)), float32(math.NaN())}}),
		c40reg("[]float64", []string{"nil", "empty", "zero", "finite", "special"},
			[][]float64{nil, {}, {0}, {0.1, math.Copysign(0, -1), math.MaxFloat64, f64den}, {math.Inf(1), math.Inf(-1), math.NaN()}}),
		c40reg("time.Time", []string{"zero", "utc", "zoned-nanos"}, []time.Time{{}, time.Unix(1, 5).UTC(), time.Date(2024, 2, 29, 23, 59, 59, 999999999, jst)}),
		c40reg("*string", []string{"nil", "non-nil", "non-nil", "non-nil"}, []*string{nil, c40ptr(""), c40ptr("x"), c40ptr("f")}),
		c40reg("*int64", []string{"nil", "non-nil", "non-nil", "non-nil"}, []*int64{nil, c40ptr(int64(0)), c40ptr(int64(-5)), c40ptr(int64(math.MaxInt64))}),
		c40reg("*bool", []string{"nil", "non-nil", "non-nil"}, []*bool{nil, c40ptr(false), c40ptr(true)}),
		c40reg("*float64", []string{"nil", "non-nil"}, []*float64{nil, c40ptr(0.5)}),
		c40reg("struct", []string{"zero", "populated", "unmarshalable(+Inf inside)"}, []c40Inner{{}, inner, innerInf}),
		c40reg("*struct", []string{"nil", "non-nil", "non-nil", "unmarshalable(+Inf inside)"}, []*c40Inner{nil, {}, &inner, &innerInf}),
		c40reg("[]struct", []string{"nil", "empty", "populated", "unmarshalable(+Inf inside)"}, [][]c40Inner{nil, {}, {{}, inner}, {innerInf}}),
		c40reg("[]string", []string{"nil", "empty", "populated"}, [][]string{nil, {}, {"a", "", "\r\n"}}),
		c40reg("[]int", []string{"nil", "empty", "populated"}, [][]int{nil, {}, {0, -1, math.MaxInt}}),
		c40reg("map[string]string", []string{"nil", "empty", "populated"}, []map[string]string{nil, {}, {"k": "v", "": ""}}),
		c40reg("map[string]struct", []string{"nil", "populated"}, []map[string]c40Inner{nil, {"a": inner}}),
		c40reg("[2]int", []string{"zero", "populated"}, [][2]int{{}, {1, -2}}),
		c40reg("any", []string{"nil", "string"}, []any{nil, "s"}),
	}
}

// mixed entity: all pairs of fields x all pairs of six values each
func c40mixedSet(f, v int, e *c40Mixed) {
	jst := time.FixedZone("JST", 9*3600)
	switch f {
	case 0:
		e.S = []string{"", "a", "é✓", "\r\n", "t", "0"}[v]
	case 1:
		e.N = []int64{0, 1, -1, math.MinInt64, math.MaxInt64, 42}[v]
	case 2:
		e.B = v%2 == 1
	case 3:
		e.Bs = [][]byte{nil, {}, {0}, []byte("f"), {255, 254}, []byte("\r\n")}[v]
	case 4:
		e.P = []*string{nil, c40ptr(""), c40ptr("p"), c40ptr("t"), c40ptr("\x00"), c40ptr("日本")}[v]
	case 5:
		e.In = []c40Inner{{}, {A: "a"}, {B: 1}, {C: []string{"c"}}, {D: map[string]int{"d": 1}}, {T: time.Date(2020, 1, 1, 0, 0, 0, 1, jst)}}[v]
	}
}

func c40mixed(r *vrun.Run, kind string, only *c40rtCase) {
	env, rejected := c40newEnv(kind, "mixed", c40Mixed{})
	if env == nil {
		r.Violate(kind+": mixed schema rejected", rejected, c40rtCase{RT: true, Repo: kind, Type: "mixed"})
		return
	}
	ver := func(e *c40Mixed) int64 { return e.Ver }
	for fi := 0; fi < 6; fi++ {
		for fj := fi + 1; fj < 6; fj++ {
			for i := 0; i < 6; i++ {
				for j := 0; j < 6; j++ {
					if only != nil && (only.FI != fi || only.FJ != fj || only.I != i || only.J != j) {
						continue
					}
					r.Evaluations++
					r.StateStr("B", kind, "mixed", strconv.Itoa(fi), strconv.Itoa(fj), strconv.Itoa(i), strconv.Itoa(j))
					r.NonTrivialStr("B", kind, "mixed", strconv.Itoa(fi), strconv.Itoa(fj), strconv.Itoa(i), strconv.Itoa(j))
					key := fmt.Sprintf("m%d%d%d%d", fi, fj, i, j)
					e := env.repo.NewEntity()
					e.Key = key
					c40mixedSet(fi, i, e)
					c40mixedSet(fj, j, e)
					sig, detail, refused := c40step(env, e, key, 1, ver)
					switch {
					case refused != "":
						r.Outcome("B " + kind + "/mixed: " + refused)
					case sig != "":
						r.Outcome("B " + kind + "/mixed: VIOLATION")
						r.Violate(fmt.Sprintf("%s/mixed: %s (fields %d,%d)", kind, sig, fi, fj), detail, c40rtCase{RT: true, Repo: kind, Type: "mixed", I: i, J: j, FI: fi, FJ: fj})
					default:
						r.Outcome("B " + kind + "/mixed: round trip ok")
					}
				}
			}
		}
	}
}

// SaveMulti: three different mixed entities in one call (every ordered pair of the six values of the struct field and
// of the string field), then each is fetched and compared; and the same batch again as an update (version 2).
func c40multi(r *vrun.Run, kind string, only *c40rtCase) {
	env, rejected := c40newEnv(kind, "mixed", c40Mixed{})
	if env == nil {
		r.Violate(kind+": mixed schema rejected", rejected, c40rtCase{RT: true, Repo: kind, Type: "multi"})
		return
	}
	ctx := context.Background()
	for i := 0; i < 6; i++ {
		for j := 0; j < 6; j++ {
			if only != nil && (only.I != i || only.J != j) {
				continue
			}
			r.Evaluations++
			r.StateStr("B", kind, "multi", strconv.Itoa(i), strconv.Itoa(j))
			r.NonTrivialStr("B", kind, "multi", strconv.Itoa(i), strconv.Itoa(j))
			rc := c40rtCase{RT: true, Repo: kind, Type: "multi", I: i, J: j}
			var es []*c40Mixed
			for k, fv := range [][4]int{{5, i, 0, i}, {5, j, 0, j}, {5, (i + j + 1) % 6, 4, j}} {
				e := env.repo.NewEntity()
				e.Key = fmt.Sprintf("sm%d%d_%d", i, j, k)
				c40mixedSet(fv[0], fv[1], e)
				c40mixedSet(fv[2], fv[3], e)
				es = append(es, e)
			}
			bad := false
			for round := int64(1); round <= 2 && !bad; round++ {
				if round == 2 {
					for _, e := range es {
						e.N += 7 // an update of every entity
					}
				}
				var errs []error
				p, site := vrun.Catch(func() { errs = env.repo.SaveMulti(ctx, es...) })
				if p != nil {
					r.Violate(kind+"/multi: SaveMulti panics in "+site, fmt.Sprint(p), rc)
					bad = true
					break
				}
				for k, err := range errs {
					if err != nil {
						r.Violate(kind+"/multi: SaveMulti failed for an entity", fmt.Sprintf("round %d entity %d: %v", round, k, err), rc)
						bad = true
					}
				}
				for k, e := range es {
					if bad {
						break
					}
					if e.Ver != round {
						r.Violate(kind+"/multi: successful SaveMulti did not advance the version by exactly one", fmt.Sprintf("round %d entity %d version %d", round, k, e.Ver), rc)
						bad = true
						break
					}
					got, err := env.repo.Fetch(ctx, e.Key)
					if err != nil {
						r.Violate(kind+"/multi: Fetch after a successful SaveMulti failed", fmt.Sprintf("round %d entity %d: %v; stored %s", round, k, err, c40stored(env.srv, env.kind, "p:"+e.Key)), rc)
						bad = true
						break
					}
					if !c40eq(reflect.ValueOf(got).Elem(), reflect.ValueOf(e).Elem()) {
						r.Violate(kind+"/multi: Fetch differs from the entity saved by SaveMulti", fmt.Sprintf("round %d entity %d of 3\nsaved   %s\nfetched %s\nstored  %s", round, k, c40show(e), c40show(got), c40stored(env.srv, env.kind, "p:"+e.Key)), rc)
						bad = true
						break
					}
				}
			}
			if bad {
				r.Outcome("B " + kind + "/multi: VIOLATION")
			} else {
				r.Outcome("B " + kind + "/multi: round trip ok")
			}
		}
	}
}

func TestVerif_C40(t *testing.T) {
	vrun.Main(t, "C40", func(r *vrun.Run) {
		r.Rule = "A: hash and JSON repository x {new key, version 1, version 2} x 2-3 concurrent Save of copies (plus save-twice, fetch+save, script flush, own sessions), all schedules within the preemption/delay bound; " +
			"B: 31 field types x their alphabets (single save and every ordered old->new update pair) + mixed 6-field entity (all field pairs x 6x6 values) on both repository kinds, Fetch + FetchCache(miss, hit); SaveMulti of three different mixed entities (6x6 value pairs, then the same batch as an update) with each entity fetched and compared; non-trivial = update pairs / mixed cases / schedules with waiting"
		r.Assume("command-level fake client (Do atomic at the server, DoCache = opt-in tracking with invalidation pushes); trusted to behave as C01-C11 say")
		r.Assume("fake RedisJSON subset keeps member values verbatim (numbers are not renormalised to i64/f64 as RedisJSON does); legacy paths '.', 'ver' as used by om")
		r.Assume("equality: nil and empty slices/maps are equal, time.Time compared with Equal (zone name / monotonic reading are not part of the value), floats by bit pattern")
		r.Assume("values that encoding/json cannot encode (NaN, +-Inf) are 'unsupported': a Save that refuses them (error or documented rueidis.JSON panic) is an outcome; a Save that reports success must round-trip")
		raw, replay := r.ReplayPayload()
		var only *c40rtCase
		if replay {
			var c c40rtCase
			if json.Unmarshal(raw, &c) == nil && c.RT {
				only = &c
			}
		}
		if only == nil {
			cfgs := c40programs()
			for ci, c := range cfgs {
				share := r.Remaining() * 0.8 / float64(len(cfgs)-ci)
				vexp.Run(r, vexp.Prog{Name: "A " + c.name, Body: c40body(c),
					Budget:  vsched.Budget{MaxPreempt: vrun.Pick(r, c.p, 6)}, // thorough: with ~10 choices per execution this is every schedule
					Delay:   vrun.Pick(r, 1, 0),
					Opts:    vsched.Options{Horizon: 5000},
					Seconds: share})
			}
			if replay {
				return
			}
		}
		types := c40types()
		item := 0
		for _, kind := range []string{"hash", "json"} {
			for _, ty := range types {
				item++
				if only != nil {
					if only.Repo == kind && only.Type == ty.name {
						ty.run(r, kind, only)
					}
					continue
				}
				if r.Mine(item) {
					ty.run(r, kind, nil)
				}
			}
			item++
			if only != nil {
				if only.Repo == kind && only.Type == "mixed" {
					c40mixed(r, kind, only)
				}
				if only.Repo == kind && only.Type == "multi" {
					c40multi(r, kind, only)
				}
				continue
			}
			if r.Mine(item) {
				c40mixed(r, kind, nil)
			}
			item++
			if r.Mine(item) {
				c40multi(r, kind, nil)
			}
		}
	})
}
