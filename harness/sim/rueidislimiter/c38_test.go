//go:build verif

package rueidislimiter

import (
	"context"
	"fmt"
	"strconv"
	"strings"
	"testing"
	"time"

	"github.com/redis/rueidis"
	"github.com/redis/rueidis/vshim/simnet"
	"github.com/redis/rueidis/vshim/simredis"
	"github.com/redis/rueidis/vshim/vexp"
	"github.com/redis/rueidis/vshim/vrun"
	"github.com/redis/rueidis/vshim/vsched"
)

// C38: the rate limiter never admits more than the limit per window.
//
// Real limiters (NewRateLimiter with a ClientBuilder returning a command-level fake client session) run against
// one fake Redis whose mini-Lua interpreter executes the script text the limiter really sends; keys expire on the
// virtual clock. 2-3 caller threads issue Allow / AllowN(n) / Check; the explorer enumerates the interleavings at
// server round-trip granularity (every script call is atomic at the server) including the EVALSHA -> NOSCRIPT ->
// EVAL fallback (the script cache starts empty; optionally another thread flushes it at any point). Window
// boundaries are crossed by advancing the virtual clock between two phases, by sleeping threads and (one program
// family) by letting a timer fire while a call is in flight (a call stalled between reading its clock and reaching
// the server).
//
// Oracle (reference model in plain Go, fed with the script executions in SERVER order, which the fake server
// reports through its AfterExec hook): per identifier the reference keeps the current window (end E, requested R).
// A call made at caller time T with n tokens and answered with ResetAtMs=E' is counted in window E':
//   - E' == E (the current window): legal only while T <= E;
//   - E' != E: a new window; legal only if there is no window or T >= E (weak reading: a call exactly at E may be
//     counted on either side), and E' must be T + window.
// Then R += n and the call must report Remaining == max(limit-R, 0), Allowed == (R <= limit) for n > 0 and
// (R < limit) for n == 0; the admitted units per (identifier, ResetAtMs) must never exceed the limit; the server
// counter must move by exactly n (Check: not at all).

const (
	c38window = 100 * time.Millisecond
	c38prefix = "rueidislimiter"
)

type c38op struct {
	kind  string // allow | allown | check | sleep
	n     int64
	id    string        // identifier ("" = "a")
	limit int           // >0: WithCustomRateLimit(limit, window)
	d     time.Duration // sleep duration
}

type c38cfg struct {
	name     string
	limit    int
	threads  [][]c38op
	phase2   [][]c38op       // started after phase 1 is quiescent and the clock was advanced by one of advance
	advance  []time.Duration // explored alternatives (free choice)
	flusher  bool            // another thread flushes the script cache once, at any point
	perThr   bool            // one limiter (own client session) per thread instead of one shared limiter
	early    bool            // timers may fire early (deviation): a call can be stalled across a boundary
	sleeper  time.Duration   // extra thread that only sleeps (gives the early-timer deviation something to fire)
	skew     time.Duration   // server clock = caller clock + skew
	p        int
	thorough bool
}

type c38call struct {
	thr    int
	op     c38op
	limit  int64
	res    Result
	err    error
	t0, t1 int64 // caller clock (ms) before / after the call
}

type c38exec struct {
	thr           int
	key           string
	n, until, now int64
	cur, exp      int64
	before, after string
	atMs          int64
}

func c38snap(srv *simredis.Server, key string) string {
	r := srv.Do("GET", key)
	if r.T != '$' {
		return "<nil>"
	}
	return r.S
}

func c38body(c c38cfg) func(x *vsched.Exec) {
	return func(x *vsched.Exec) {
		srv := simredis.New()
		srv.EnableLua()
		simnet.New(srv)
		if c.skew != 0 {
			vnow := srv.NowMs
			srv.NowMs = func() int64 { return vnow() + c.skew.Milliseconds() }
		}
		var execs []*c38exec
		inHook := false
		var pendingBefore string
		srv.Hook = func(s *simredis.Session, argv []string) *simredis.Reply {
			if inHook || s.ID < 0 || len(argv) < 8 || !(argv[0] == "EVAL" || argv[0] == "EVALSHA") {
				return nil
			}
			inHook = true
			pendingBefore = c38snap(srv, argv[3])
			inHook = false
			return nil
		}
		srv.AfterExec = func(s *simredis.Session, argv []string, r simredis.Reply) {
			if inHook || s.ID < 0 || !(argv[0] == "EVAL" || argv[0] == "EVALSHA") {
				return
			}
			if r.T == '-' && strings.HasPrefix(r.S, "NOSCRIPT") {
				return
			}
			e := &c38exec{thr: vsched.CurID(), atMs: srv.NowMs(), cur: -1, exp: -1, before: pendingBefore}
			if len(argv) == 8 {
				e.key = argv[3]
				e.n, _ = strconv.ParseInt(argv[5], 10, 64)
				e.until, _ = strconv.ParseInt(argv[6], 10, 64)
				e.now, _ = strconv.ParseInt(argv[7], 10, 64)
			}
			if r.T == '*' && len(r.A) == 2 {
				e.cur, e.exp = r.A[0].I, r.A[1].I
			}
			inHook = true
			e.after = c38snap(srv, e.key)
			inHook = false
			execs = append(execs, e)
		}
		newLimiter := func() RateLimiterClient {
			l, err := NewRateLimiter(RateLimiterOption{
				ClientBuilder: func(o rueidis.ClientOption) (rueidis.Client, error) {
					return rueidis.NewVerifSimClient(srv, o), nil
				},
				ClientOption: rueidis.ClientOption{DisableCache: true},
				Limit:        c.limit,
				Window:       c38window,
			})
			if err != nil {
				x.Fail("NewRateLimiter failed", "%v", err)
				return nil
			}
			return l
		}
		shared := newLimiter()
		if shared == nil {
			return
		}
		var calls []*c38call
		ctx := context.Background()
		spawn := func(name string, ops []c38op) {
			lim := shared
			if c.perThr {
				lim = newLimiter()
			}
			vsched.GoNamed(name, func() {
				me := vsched.CurID()
				for _, op := range ops {
					if op.kind == "sleep" {
						time.Sleep(op.d)
						continue
					}
					id := op.id
					if id == "" {
						id = "a"
					}
					cl := &c38call{thr: me, op: op, limit: int64(c.limit), t0: time.Now().UnixMilli()}
					cl.op.id = id
					var opts []RateLimitOption
					if op.limit > 0 {
						opts = append(opts, WithCustomRateLimit(op.limit, c38window))
						cl.limit = int64(op.limit)
					}
					calls = append(calls, cl)
					switch op.kind {
					case "allow":
						cl.op.n = 1
						cl.res, cl.err = lim.Allow(ctx, id, opts...)
					case "check":
						cl.op.n = 0
						cl.res, cl.err = lim.Check(ctx, id, opts...)
					default:
						cl.res, cl.err = lim.AllowN(ctx, id, op.n, opts...)
					}
					cl.t1 = time.Now().UnixMilli()
				}
			})
		}
		for i, ops := range c.threads {
			spawn(fmt.Sprintf("t%d", i), ops)
		}
		if c.flusher {
			vsched.GoNamed("flusher", func() {
				vsched.Point("flush", nil)
				srv.ScriptFlush()
			})
		}
		if c.sleeper > 0 {
			vsched.GoNamed("sleeper", func() { time.Sleep(c.sleeper) })
		}
		if st := x.Run(); st != vsched.Quiescent {
			return
		}
		adv := time.Duration(-1)
		if len(c.phase2) > 0 {
			if len(c.advance) > 0 {
				adv = c.advance[vsched.Choose(len(c.advance), vsched.KFree, "advance")]
				x.Advance(adv)
			}
			for i, ops := range c.phase2 {
				spawn(fmt.Sprintf("u%d", i), ops)
			}
			if st := x.Resume(); st != vsched.Quiescent {
				return
			}
		}

		// ---------------------------------------------------------------- oracle
		// map the script executions to the calls: the k-th execution done by a thread belongs to its k-th call
		byThr := func(thr int) (cs []*c38call) {
			for _, cl := range calls {
				if cl.thr == thr {
					cs = append(cs, cl)
				}
			}
			return
		}
		seen := map[int]int{}
		type win struct{ end, req int64 }
		wins := map[string]*win{}
		admitted := map[string]int64{}
		desc := func() string {
			var b strings.Builder
			for i, e := range execs {
				fmt.Fprintf(&b, "\n  exec#%d thr=%d key=%s n=%d callerNow=%d until=%d serverNow=%d -> current=%d expires_at=%d counter %s -> %s", i, e.thr, e.key, e.n, e.now, e.until, e.atMs, e.cur, e.exp, e.before, e.after)
			}
			for _, cl := range calls {
				fmt.Fprintf(&b, "\n  call thr=%d %s(%s,n=%d,limit=%d) at [%d,%d] -> %+v err=%v", cl.thr, cl.op.kind, cl.op.id, cl.op.n, cl.limit, cl.t0, cl.t1, cl.res, cl.err)
			}
			if adv >= 0 {
				fmt.Fprintf(&b, "\n  clock advanced by %v between the phases", adv)
			}
			return b.String()
		}
		outcome := ""
		for _, e := range execs {
			cs := byThr(e.thr)
			k := seen[e.thr]
			seen[e.thr]++
			if k >= len(cs) {
				x.Fail("more script executions than calls", "thread %d%s", e.thr, desc())
				return
			}
			cl := cs[k]
			if cl.err != nil {
				x.Fail("call failed", "%v%s", cl.err, desc())
				return
			}
			wantKey := c38prefix + ":{" + cl.op.id + "}"
			if e.key != wantKey || e.n != cl.op.n || e.until != e.now+c38window.Milliseconds() || e.now < cl.t0 || e.now > cl.t1 {
				x.Fail("script arguments do not describe the call", "exec key=%s n=%d now=%d until=%d for call %+v [%d,%d]%s", e.key, e.n, e.now, e.until, cl.op, cl.t0, cl.t1, desc())
				return
			}
			w := wins[e.key]
			E := cl.res.ResetAtMs
			if w == nil || w.end != E {
				if w != nil && e.now < w.end {
					x.Fail("window replaced while it was still open at the caller's clock", "identifier %s: window ending %d, call at %d was counted in a new window %d%s", cl.op.id, w.end, e.now, E, desc())
					return
				}
				if E != e.now+c38window.Milliseconds() {
					x.Fail("ResetAtMs of a new window is not caller time + window", "identifier %s: call at %d got ResetAtMs %d%s", cl.op.id, e.now, E, desc())
					return
				}
				w = &win{end: E}
				wins[e.key] = w
				outcome += "N"
			} else {
				if e.now > w.end {
					x.Fail("call counted in a window that was already over at the caller's clock", "identifier %s: window ending %d, call at %d%s", cl.op.id, w.end, e.now, desc())
					return
				}
				outcome += "o"
			}
			w.req += cl.op.n
			wantRemaining := cl.limit - w.req
			if wantRemaining < 0 {
				wantRemaining = 0
			}
			wantAllowed := w.req <= cl.limit
			if cl.op.n == 0 {
				wantAllowed = w.req < cl.limit
			}
			if cl.res.Allowed && cl.op.n > 0 {
				ak := e.key + "@" + strconv.FormatInt(E, 10)
				admitted[ak] += cl.op.n
				if admitted[ak] > cl.limit && cl.op.limit == 0 {
					x.Fail("more units admitted in one window than the limit", "identifier %s window %d: admitted %d > limit %d%s", cl.op.id, E, admitted[ak], cl.limit, desc())
					return
				}
			}
			if cl.res.Remaining != wantRemaining {
				x.Fail("Remaining differs from limit minus everything requested so far in the window", "identifier %s window %d: requested so far %d, limit %d, Remaining %d want %d%s", cl.op.id, E, w.req, cl.limit, cl.res.Remaining, wantRemaining, desc())
				return
			}
			if cl.res.Allowed != wantAllowed {
				x.Fail("Allowed differs from the reference decision", "identifier %s window %d: requested so far %d, limit %d, n %d, Allowed %v want %v%s", cl.op.id, E, w.req, cl.limit, cl.op.n, cl.res.Allowed, wantAllowed, desc())
				return
			}
			if e.after != strconv.FormatInt(w.req, 10) {
				x.Fail("server counter differs from the requests counted in the window", "identifier %s window %d: counter %s -> %s, reference %d%s", cl.op.id, E, e.before, e.after, w.req, desc())
				return
			}
			if cl.op.n == 0 && e.after != e.before && e.after != "0" {
				x.Fail("Check changed the server counter", "identifier %s: %s -> %s%s", cl.op.id, e.before, e.after, desc())
				return
			}
			if cl.res.Allowed {
				outcome += "+"
			} else {
				outcome += "-"
			}
		}
		for _, cl := range calls {
			if cl.err != nil {
				x.Fail("call failed", "%v%s", cl.err, desc())
				return
			}
		}
		n := len(calls)
		if len(execs) != n {
			x.Fail("a call did not execute the script exactly once", "%d calls, %d executions%s", n, len(execs), desc())
			return
		}
		x.Outcome = outcome
	}
}

func c38programs(r *vrun.Run) []c38cfg {
	var out []c38cfg
	A := func(n int64) c38op {
		switch n {
		case 0:
			return c38op{kind: "check"}
		case 1:
			return c38op{kind: "allow"}
		}
		return c38op{kind: "allown", n: n}
	}
	// two threads, one call each: every unordered pair of n in 0..3, every limit
	for limit := 1; limit <= 3; limit++ {
		for a := int64(0); a <= 3; a++ {
			for b := a; b <= 3; b++ {
				out = append(out, c38cfg{name: fmt.Sprintf("L%d/2thr/%d|%d", limit, a, b), limit: limit, threads: [][]c38op{{A(a)}, {A(b)}}, p: 2})
			}
		}
	}
	// three threads, one call each: every multiset of n in 0..3 (thorough: all; quick: those that can cross the limit)
	for limit := 1; limit <= 3; limit++ {
		for a := int64(0); a <= 3; a++ {
			for b := a; b <= 3; b++ {
				for d := b; d <= 3; d++ {
					sum := a + b + d // quick: only the multisets that can cross the limit
					out = append(out, c38cfg{name: fmt.Sprintf("L%d/3thr/%d|%d|%d", limit, a, b, d), limit: limit, threads: [][]c38op{{A(a)}, {A(b)}, {A(d)}}, p: 2,
						thorough: sum <= int64(limit)})
				}
			}
		}
	}
	// two calls per thread
	out = append(out,
		c38cfg{name: "L2/2x2/allow,allow|allow,check", limit: 2, threads: [][]c38op{{A(1), A(1)}, {A(1), A(0)}}, p: 2},
		c38cfg{name: "L3/2x2/allowN2,allow|check,allowN2", limit: 3, threads: [][]c38op{{A(2), A(1)}, {A(0), A(2)}}, p: 2},
		c38cfg{name: "L1/2x2/check,allow|check,allow", limit: 1, threads: [][]c38op{{A(0), A(1)}, {A(0), A(1)}}, p: 2},
		c38cfg{name: "L2/2x2/allowN(0),allowN3|allow,allow", limit: 2, threads: [][]c38op{{{kind: "allown", n: 0}, A(3)}, {A(1), A(1)}}, p: 2},
	)
	// script cache flushed by another thread at any point
	out = append(out,
		c38cfg{name: "L1/flush/allow|allow", limit: 1, threads: [][]c38op{{A(1)}, {A(1)}}, flusher: true, p: 2},
		c38cfg{name: "L2/flush/allowN2,allow|allow", limit: 2, threads: [][]c38op{{A(2), A(1)}, {A(1)}}, flusher: true, p: 2},
		c38cfg{name: "L2/flush/check,allow|allowN2", limit: 2, threads: [][]c38op{{A(0), A(1)}, {A(2)}}, flusher: true, p: 2, thorough: true},
	)
	// separate limiter instances (own sessions), two identifiers, custom per-call limits
	out = append(out,
		c38cfg{name: "L2/per-thread-limiters/allow,allow|allowN2|check", limit: 2, threads: [][]c38op{{A(1), A(1)}, {A(2)}, {A(0)}}, perThr: true, p: 2},
		c38cfg{name: "L1/two-identifiers", limit: 1, threads: [][]c38op{{{kind: "allow", id: "a"}, {kind: "allow", id: "b"}}, {{kind: "allow", id: "b"}, {kind: "allow", id: "a"}}}, p: 2},
		c38cfg{name: "L2/custom-limit-1", limit: 2, threads: [][]c38op{{{kind: "allow", limit: 1}}, {A(1)}, {{kind: "check", limit: 1}}}, p: 2},
	)
	// window boundary between two phases: expires_at-1ms, expires_at, expires_at+1ms and around the key TTL (expires_at+1000ms)
	w := c38window
	out = append(out,
		c38cfg{name: "L1/boundary/allow;advance;allow|allow", limit: 1, threads: [][]c38op{{A(1)}}, phase2: [][]c38op{{A(1)}, {A(1)}},
			advance: []time.Duration{w - time.Millisecond, w, w + time.Millisecond, w + 999*time.Millisecond, w + 1000*time.Millisecond, w + 1001*time.Millisecond}, p: 2},
		c38cfg{name: "L2/boundary/allowN2|check;advance;allowN2|allow,check", limit: 2, threads: [][]c38op{{A(2)}, {A(0)}}, phase2: [][]c38op{{A(2)}, {A(1), A(0)}},
			advance: []time.Duration{w - time.Millisecond, w, w + time.Millisecond, w + 1000*time.Millisecond}, p: 2},
		c38cfg{name: "L3/boundary/allowN3;advance;allowN3|allowN2", limit: 3, threads: [][]c38op{{A(3)}}, phase2: [][]c38op{{A(3)}, {A(2)}},
			advance: []time.Duration{w - time.Millisecond, w, w + time.Millisecond}, p: 2, thorough: true},
	)
	// boundary crossed by sleeping threads while others are calling
	out = append(out,
		c38cfg{name: "L1/sleep/allow|sleep(w+1),allow|allow,sleep(w),allow", limit: 1, threads: [][]c38op{{A(1)}, {{kind: "sleep", d: w + time.Millisecond}, A(1)}, {A(1), {kind: "sleep", d: w}, A(1)}}, p: 2},
		c38cfg{name: "L2/sleep/allowN2,sleep(w-1),allow|sleep(w),allow", limit: 2, threads: [][]c38op{{A(2), {kind: "sleep", d: w - time.Millisecond}, A(1)}, {{kind: "sleep", d: w}, A(1)}}, p: 2},
	)
	// a call stalled between reading its clock and reaching the server: a timer may fire early once
	out = append(out,
		c38cfg{name: "L1/stall-short/allow|allow (timer w+1ms may fire while a call is in flight)", limit: 1, threads: [][]c38op{{A(1)}, {A(1)}}, sleeper: w + time.Millisecond, early: true, p: 1},
		c38cfg{name: "L1/stall-long/allow|allow (timer w+1001ms may fire while a call is in flight)", limit: 1, threads: [][]c38op{{A(1)}, {A(1)}}, sleeper: w + 1001*time.Millisecond, early: true, p: 1},
	)
	// caller clock and server clock differ (the script takes every timestamp from the caller, the key TTLs are judged by the server)
	out = append(out,
		c38cfg{name: "L1/skew/server ahead by w+1001ms/allow|allow", limit: 1, threads: [][]c38op{{A(1)}, {A(1)}}, skew: w + 1001*time.Millisecond, p: 1},
		c38cfg{name: "L1/skew/server ahead by w+999ms/allow|allow", limit: 1, threads: [][]c38op{{A(1)}, {A(1)}}, skew: w + 999*time.Millisecond, p: 1},
		c38cfg{name: "L1/skew/server behind by 5s/allow|allow;advance;allow", limit: 1, threads: [][]c38op{{A(1)}, {A(1)}}, phase2: [][]c38op{{A(1)}}, advance: []time.Duration{w, w + time.Millisecond}, skew: -5 * time.Second, p: 1},
	)
	var sel []c38cfg
	for _, c := range out {
		if !r.Quick() {
			c.p = 6 // with at most ~10 scheduling choices per execution this is every schedule
		}
		if c.thorough && r.Quick() {
			continue
		}
		sel = append(sel, c)
	}
	return sel
}

func TestVerif_C38(t *testing.T) {
	vrun.Main(t, "C38", func(r *vrun.Run) {
		r.Rule = "programs: 2-3 caller threads x 1-2 calls of Allow/AllowN(n in 0..3)/Check, limit 1..3, window 100ms, empty script cache (EVALSHA->NOSCRIPT->EVAL), optional script-flush thread, " +
			"per-thread limiter instances, two identifiers, custom per-call limit, clock advanced between phases to expires_at-1ms/expires_at/+1ms and around the key TTL (+999/+1000/+1001ms), sleeping threads, " +
			"one early timer while a call is in flight, server clock skewed against the caller clock; all schedules within the preemption/delay bound; non-trivial = executions in which a thread had to wait for another"
		r.Assume("command-level fake client: each script call is atomic at the fake server at one scheduling point; the limiter's client is trusted to behave as C01-C11 say")
		r.Assume("server clock == caller clock == the virtual clock (except in the skew programs); keys expire lazily exactly at their PXAT time; SET ... PXAT <past> leaves a key that is gone on the next access, INCRBY then creates a key without TTL (Redis semantics)")
		r.Assume("weak reading at the boundary: a call made exactly at ResetAtMs may be counted in the old or in a new window")
		r.Assume("'everything requested so far' includes the call itself and requests that were denied (property statement); the README's 'incrementing the counter if allowed' is not what is checked")
		r.Assume("Allowed is additionally required to equal the reference decision (requested <= limit; Check: requested < limit), which is stronger than 'admits at most the limit'")
		cfgs := c38programs(r)
		r.Bounds["programs_count"] = len(cfgs)
		for ci, c := range cfgs {
			dev := 0
			if c.early {
				dev = 1
			}
			vexp.Run(r, vexp.Prog{Name: c.name, Body: c38body(c),
				Budget:  vsched.Budget{MaxPreempt: c.p, MaxDev: dev},
				Delay:   vrun.Pick(r, 1, 0), // thorough: unbounded
				Opts:    vsched.Options{Horizon: 5000, EarlyTimers: c.early},
				Seconds: r.Remaining() / float64(len(cfgs)-ci)})
		}
	})
}
