//go:build verif

package rueidislock

import (
	"context"
	"errors"
	"fmt"
	"strconv"
	"strings"
	"testing"
	"time"

	"github.com/redis/rueidis"
	"github.com/redis/rueidis/vshim/simnet"
	"github.com/redis/rueidis/vshim/simredis"
	"github.com/redis/rueidis/vshim/vchan"
	"github.com/redis/rueidis/vshim/vexp"
	"github.com/redis/rueidis/vshim/vrun"
	"github.com/redis/rueidis/vshim/vsched"
)

// C34: distributed locks are mutually exclusive and notice loss.
//
// Real Lockers (one fake client session each) contend for one lock name on one fake Redis: the mini-Lua interpreter
// runs the scripts the locker really sends, keys expire on the virtual clock, invalidation pushes are delivered by a
// reader thread per client (like the real connection reader). The explorer enumerates thread schedules; environment
// events (external DEL of lock keys, transient transport errors, connection loss, Close, forced take-over,
// cancellation of a waiter) are deviations or extra threads.

type c34thr struct {
	locker int
	op     string // with | try | force | withc (WithContext with a context that thread "ev" cancels)
	rounds int    // acquire/release rounds (0 = 1)
}

type c34cfg struct {
	name     string
	majority int32
	lockers  int
	thr      []c34thr
	// event: "" | del (another application deletes a majority of the lock keys; offered as a deviation before every
	// script a locker sends) | del1 (deletes one key of three: a minority) | neterr (one script call made for a live
	// holder fails with a transient transport error; deviation) | lose (the connection of the holder's client is lost
	// for good) | losere (lost and re-established) | losere-other (the same for the other locker's client, where a waiter may be parked) | close (the holder's Locker is closed) | cancel (the context given
	// to the withc thread is cancelled)
	event   string
	hold    time.Duration // > 0: the holder sleeps that long (virtual time) while holding, so extensions happen
	lat     time.Duration // > 0: every command takes that long (virtual) to reach the server; TryNextAfter = 5*lat
	horizon int
	nodelay bool // no non-default choices at blocking points (long executions)
	noloop  bool
	setpx   bool
	nocsc   bool // ClientOption.DisableCache: no client side caching, waiters poll
	replypt bool // scheduling point between the server executing a command and its reply reaching the caller
	p       int  // preemption bound in the quick tier
	tier    int  // 0 quick+thorough, 1 thorough only
}

// c34gateProg is the program that reports the "gate dropped" missed wake-up; the other programs only count it.
const c34gateProg = "2lockers-with-with-m1"

const (
	c34validity = 2 * time.Second
	c34interval = time.Second
	c34lock     = "L"
)

type c34val struct {
	val   string
	sess  int
	own   []bool // keys currently holding this value on the server, as far as the harness has seen
	lost  []bool // keys that somebody else took away (external DEL, forced SET) while they held this value
	acq   int    // successful key acquisitions
	owner *c34hold
}

type c34hold struct {
	thr      int
	round    int
	locker   int
	ctx      context.Context
	v        *c34val
	acquired bool
	released bool
	accAt    time.Duration
	lostMaj  bool // somebody else (external DEL, forced take-over) took the majority of its keys away
	lostAt   time.Duration
	must     bool // the locker has to cancel the context on its own (loss of keys / connection / Close)
	mustAt   time.Duration
	doneAt   time.Duration
	wasDone  bool
	// pastAwait: the thread has decided to release on its own; later events create no obligation for the locker
	pastAwait bool
}

var errC34net = errors.New("verif: transient network error")

func c34live(ctx context.Context) bool { return !vchan.IsClosed(ctx.Done()) }

func c34body(c c34cfg) func(x *vsched.Exec) {
	return func(x *vsched.Exec) {
		srv := simredis.New()
		srv.EnableLua()
		simnet.New(srv)
		srv.ActiveExpire = true
		total := int(c.majority*2 - 1)
		keys := make([]string, total)
		for i := range keys {
			keys[i] = keyname("rueidislock", c34lock, int32(i))
		}
		keyIdx := func(k string) int {
			for i, s := range keys {
				if s == k {
					return i
				}
			}
			return -1
		}
		var clients []*rueidis.VerifSimClient
		var lockers []Locker
		for i := 0; i < c.lockers; i++ {
			idx := i
			lk, err := NewLocker(LockerOption{
				ClientBuilder: func(o rueidis.ClientOption) (rueidis.Client, error) {
					cl := rueidis.NewVerifSimClient(srv, o)
					cl.Latency = c.lat
					cl.ReplyPoint = c.replypt
					cl.RetryWhileLost = c.event == "losere-other" // default retry policy: retryable scripts wait for the reconnect
					cl.StartReader("reader" + strconv.Itoa(idx))
					clients = append(clients, cl)
					return cl, nil
				},
				KeyMajority: c.majority, KeyValidity: c34validity, TryNextAfter: 5 * c.lat, NoLoopTracking: c.noloop, FallbackSETPX: c.setpx,
				ClientOption: rueidis.ClientOption{DisableCache: c.nocsc},
			})
			if err != nil {
				x.Fail("harness: NewLocker failed", "%v", err)
				return
			}
			lockers = append(lockers, lk)
		}
		var holders []*c34hold                // one per successful acquisition
		results := make([]string, len(c.thr)) // "" until the thread has finished
		inWith := make([]bool, len(c.thr))    // the thread is inside WithContext
		var vals []*c34val
		findVal := func(v string) *c34val {
			for _, r := range vals {
				if r.val == v {
					return r
				}
			}
			return nil
		}
		closed := make([]bool, c.lockers)
		forcer := make([]bool, c.lockers) // lockers used with ForceWithContext
		for _, t := range c.thr {
			if t.op == "force" {
				forcer[t.locker] = true
			}
		}
		evDone := false
		evWhat := ""

		// lostKeys: with 2m-1 keys, a value that lost m keys to others can never own a majority again
		lostKeys := func(v *c34val) int {
			n := 0
			for _, o := range v.lost {
				if o {
					n++
				}
			}
			return n
		}
		// refresh re-evaluates which holders have to be cancelled by the locker now
		refresh := func() {
			for _, h := range holders {
				if !h.acquired || h.released {
					continue
				}
				if !h.lostMaj && lostKeys(h.v) >= int(c.majority) {
					h.lostMaj, h.lostAt = true, x.Elapsed()
				}
				if !h.must && !h.pastAwait && (h.lostMaj || (clients[h.locker].Lost && c.event == "lose") || closed[h.locker]) {
					h.must, h.mustAt = true, x.Elapsed()
				}
			}
		}
		describe := func() string {
			s := ""
			for _, h := range holders {
				s += fmt.Sprintf("[thread %d round %d locker %d acquired@%v live=%v released=%v lostMajority=%v] ", h.thr, h.round, h.locker, h.accAt, c34live(h.ctx), h.released, h.lostMaj)
			}
			return s
		}
		checkExcl := func(where string) {
			n := 0
			for _, h := range holders {
				if h.acquired && lostKeys(h.v) == 0 && c34live(h.ctx) { // holders robbed of keys by others are outside the precondition
					n++
				}
			}
			if n > 1 {
				x.Fail("mutual exclusion: two live lock contexts for one name", "at %s (t=%v, event=%s/%v): %s", where, x.Elapsed(), c.event, evDone, describe())
			}
		}

		inHook := false
		extDel := func() {
			n := int(c.majority)
			if c.event == "del1" {
				n = 1
			}
			inHook = true
			for _, k := range keys[:n] {
				if g := srv.Do("GET", k); g.T == '$' {
					if v := findVal(g.S); v != nil {
						v.own[keyIdx(k)], v.lost[keyIdx(k)] = false, true
					}
				}
				srv.Do("DEL", k)
			}
			inHook = false
			evDone = true
			vsched.Logf("external DEL of %d key(s) at %v", n, x.Elapsed())
			refresh()
		}

		// before every command: remember the lock value the calling thread uses (ARGV[1] of every lock script), then
		// let the environment event of the program happen
		lastVal := make([]string, len(c.thr))
		var before func(argv []string) error
		for _, cl := range clients {
			cl.Fail = func(argv []string) error {
				if t := vsched.Cur(); t != nil && len(argv) >= 5 && (argv[0] == "EVALSHA" || argv[0] == "EVAL") {
					for ti := range c.thr {
						if t.Name == "t"+strconv.Itoa(ti) {
							lastVal[ti] = argv[4]
						}
					}
				}
				if before != nil {
					return before(argv)
				}
				return nil
			}
		}
		if c.event == "neterr" {
			before = func(argv []string) error {
				if evDone || len(argv) < 5 || (argv[0] != "EVALSHA" && argv[0] != "EVAL") || vsched.Cur() == nil {
					return nil
				}
				v := findVal(argv[4])
				if v == nil || v.owner == nil || v.owner.released || !c34live(v.owner.ctx) {
					return nil
				}
				if vsched.Choose(2, vsched.KDev, "neterr") == 1 {
					evDone = true
					vsched.Logf("transient transport error on %s for thread %d's value at %v", argv[0], v.owner.thr, x.Elapsed())
					return errC34net
				}
				return nil
			}
		}

		logPos := 0
		srv.AfterExec = func(ss *simredis.Session, argv []string, r simredis.Reply) {
			start := logPos
			logPos = len(srv.Log)
			if inHook {
				return
			}
			li := -1
			for i, cl := range clients {
				if cl.Sess == ss {
					li = i
				}
			}
			if li < 0 {
				return
			}
			name := strings.ToUpper(argv[0])
			if name != "EVAL" && name != "EVALSHA" {
				if name == "DEL" || name == "UNLINK" {
					x.Fail("harness: locker deletes a key outside a script", "%q", argv)
				}
				return
			}
			if len(argv) < 5 || argv[2] != "1" {
				return
			}
			key, val := argv[3], argv[4]
			ki := keyIdx(key)
			if ki < 0 {
				return
			}
			for _, e := range srv.Log[start:] {
				if e.Sess != ss.ID || !e.InTxn || len(e.Argv) < 2 || e.Argv[1] != key {
					continue
				}
				switch strings.ToUpper(e.Argv[0]) {
				case "SET":
					if r.T == '+' {
						v := findVal(val)
						if v == nil {
							v = &c34val{val: val, sess: li, own: make([]bool, total), lost: make([]bool, total)}
							vals = append(vals, v)
						}
						for _, o := range vals {
							if o.own[ki] && o != v {
								o.own[ki] = false
								if forcer[li] { // a forced SET overwrites the previous owner's value: that owner was robbed
									o.lost[ki] = true
								}
							}
						}
						v.own[ki] = true
						v.acq++
					}
				case "DEL", "UNLINK":
					// the locker whose value is val releases one of its keys (the scripts delete only when GET == val)
					if v := findVal(val); v != nil {
						v.own[ki] = false
						if h := v.owner; h != nil && c34live(h.ctx) {
							x.Fail("key released before the lock context is done", "locker %d deleted %s at %v while the context returned to thread %d is still live; %s", li, key, x.Elapsed(), h.thr, describe())
						}
					}
				}
			}
			refresh()
			checkExcl("server command " + name)
		}
		if c.event == "del" || c.event == "del1" {
			// the other application's DEL is offered before every script a locker sends (i.e. between two commands, so
			// that its invalidation is on the wire in the order a real server would produce)
			before = func(argv []string) error {
				if !evDone && (argv[0] == "EVALSHA" || argv[0] == "EVAL") && vsched.Cur() != nil && vsched.Choose(2, vsched.KDev, "extdel") == 1 {
					extDel()
				}
				return nil
			}
		}

		anyHolder := func() *c34hold {
			for _, h := range holders {
				if h.acquired && !h.released {
					return h
				}
			}
			return nil
		}

		var cancelSrc context.CancelFunc
		srcCtx := context.Background()
		if c.event == "cancel" {
			srcCtx, cancelSrc = context.WithCancel(context.Background())
		}

		for ti := range c.thr {
			ti := ti
			t := c.thr[ti]
			vsched.GoNamed("t"+strconv.Itoa(ti), func() {
				rounds := t.rounds
				if rounds == 0 {
					rounds = 1
				}
				res := ""
				for round := 0; round < rounds; round++ {
					h := &c34hold{thr: ti, round: round, locker: t.locker}
					var cancel context.CancelFunc
					var err error
					switch t.op {
					case "try":
						h.ctx, cancel, err = lockers[t.locker].TryWithContext(context.Background(), c34lock)
					case "force":
						h.ctx, cancel, err = lockers[t.locker].ForceWithContext(context.Background(), c34lock)
					case "withc":
						inWith[ti] = true
						h.ctx, cancel, err = lockers[t.locker].WithContext(srcCtx, c34lock)
						inWith[ti] = false
					default:
						inWith[ti] = true
						h.ctx, cancel, err = lockers[t.locker].WithContext(context.Background(), c34lock)
						inWith[ti] = false
					}
					if err != nil {
						e := err.Error()
						if i := strings.Index(e, ":"); i > 0 {
							e = e[:i]
						}
						res += e + " "
						ok := false
						switch {
						case t.op == "try" && errors.Is(err, ErrNotLocked):
							ok = true
						case t.op == "withc" && errors.Is(err, context.Canceled) && evDone:
							ok = true
						case errors.Is(err, ErrLockerClosed) && closed[t.locker]:
							ok = true
						}
						if !ok {
							x.Fail("lock attempt failed without a reason the caller can see", "thread %d (%s, locker %d) round %d: %v (locker closed=%v, client lost=%v, event %s done=%v)", ti, t.op, t.locker, round, err, closed[t.locker], clients[t.locker].Lost, c.event, evDone)
						}
						break
					}
					// the value of this acquisition is the one the thread used in its own acquire scripts
					if v := findVal(lastVal[ti]); v != nil && v.sess == t.locker && v.owner == nil && v.acq >= int(c.majority) {
						h.v = v
					}
					if h.v == nil {
						x.Fail("lock reported as acquired without a majority of keys set", "thread %d locker %d: no value of this locker was set on >= %d keys", ti, t.locker, c.majority)
						break
					}
					h.v.owner = h
					h.acquired, h.accAt = true, x.Elapsed()
					holders = append(holders, h)
					refresh()
					checkExcl("acquisition by thread " + strconv.Itoa(ti))
					if c.hold > 0 {
						time.Sleep(c.hold)
					} else {
						vsched.Point("hold", nil)
					}
					checkExcl("hold of thread " + strconv.Itoa(ti))
					// when the locker has to cancel the context on its own, wait for that (bounded by the key validity)
					vsched.Point("await-cancel", func() bool {
						return !h.must || !c34live(h.ctx) || x.Elapsed() > h.mustAt+2*c34validity
					})
					h.doneAt, h.wasDone, h.pastAwait = x.Elapsed(), !c34live(h.ctx), true
					cancel()
					h.released = true
					res += "acquired"
					if h.must {
						switch {
						case !h.wasDone:
							x.Fail("lock context not cancelled after the holder lost its keys / connection", "thread %d (locker %d): had to be cancelled from %v on (event %s), still live at %v; %s", ti, h.locker, h.mustAt, c.event, h.doneAt, describe())
						case h.lostMaj && h.doneAt-h.lostAt > c34interval:
							x.Fail("lock context cancelled late after losing the majority of keys", "thread %d: lost at %v, context done seen at %v (> one extend interval %v)", ti, h.lostAt, h.doneAt, c34interval)
						case h.lostMaj && h.doneAt != h.lostAt && !c.nocsc && c.lat == 0 && !clients[h.locker].Lost:
							// with client-side caching the loss is announced by an invalidation push: nothing has to wait for a timer
							x.Fail("lock context cancelled only by the periodic extension although the loss of the keys was announced by an invalidation", "thread %d: lost at %v, context done seen at %v; %s", ti, h.lostAt, h.doneAt, describe())
						case h.lostMaj && h.doneAt == h.lostAt:
							res += "(cancelled-at-once)"
						case h.lostMaj:
							res += "(cancelled-by-timer)"
						default:
							res += "(cancelled)"
						}
					}
					res += " "
				}
				if res == "" {
					res = "-"
				}
				results[ti] = res
			})
		}
		switch c.event {
		case "lose", "losere", "close", "losere-other":
			vsched.GoDaemon("ev", func() {
				var h *c34hold
				vsched.Point("ev-wait", func() bool { h = anyHolder(); return h != nil })
				evWhat = strconv.Itoa(h.locker)
				switch c.event {
				case "losere-other":
					// the connection of the OTHER locker's client (where a WithContext waiter may be parked) is lost and
					// re-established: the server forgets what that client tracked, so only the nil invalidation can make the
					// waiter try again and register its interest anew
					o := 1 - h.locker
					evWhat = strconv.Itoa(o)
					clients[o].Lose()
					vsched.Point("ev-reconnect", nil)
					clients[o].Reconnect()
					clients[o].StartReader("reader" + evWhat + "b")
				case "lose":
					clients[h.locker].Lose()
				case "losere":
					clients[h.locker].Lose()
					vsched.Point("ev-reconnect", nil)
					clients[h.locker].Reconnect()
					clients[h.locker].StartReader("reader" + evWhat + "b")
				case "close":
					closed[h.locker] = true
					refresh()
					lockers[h.locker].Close()
				}
				evDone = true
				vsched.Logf("%s of locker %s at %v", c.event, evWhat, x.Elapsed())
				refresh()
			})
		case "cancel":
			vsched.GoDaemon("ev", func() {
				vsched.Point("ev-wait", func() bool {
					for ti, t := range c.thr {
						if t.op == "withc" && inWith[ti] {
							return true
						}
					}
					return false
				})
				evDone = true
				cancelSrc()
				vsched.Logf("waiter's context cancelled at %v", x.Elapsed())
			})
		}

		st := x.Run()
		if st != vsched.Quiescent {
			if st == vsched.Deadlock || st == vsched.Horizon {
				vsched.Logf("state at %s (t=%v): %s", st, x.Elapsed(), describe())
				for _, h := range holders {
					if h.must && !h.pastAwait && c34live(h.ctx) {
						x.Fail("lock context not cancelled after the holder lost its keys / connection", "%s: thread %d (locker %d) had to be cancelled from %v on (event %s) and is still live at %v; %s", st, h.thr, h.locker, h.mustAt, c.event, x.Elapsed(), describe())
					}
				}
				// name the cause when a WithContext caller waits on a gate that its locker no longer knows
				for ti, t := range c.thr {
					if !inWith[ti] {
						continue
					}
					m := lockers[t.locker].(*locker)
					free := true
					inHook = true
					for _, k := range keys {
						if srv.Do("EXISTS", k).I != 0 {
							free = false
						}
					}
					inHook = false
					if m.gates != nil && m.gates[c34lock] != nil && free && !clients[t.locker].Lost {
						x.Fail("WithContext waiter blocked forever although the lock is free and its gate is registered", "%s: thread %d (locker %d) waits in WithContext, no lock key exists on the server, nobody holds the lock: the wake-up was lost; %s", st, ti, t.locker, describe())
					}
					if m.gates != nil && m.gates[c34lock] == nil {
						if c.name == c34gateProg {
							x.Fail("WithContext waiter never woken: its gate was dropped from locker.gates", "%s: thread %d (locker %d) is blocked in WithContext but locker.gates has no gate for the name any more, so invalidations of the lock keys wake nobody; %s", st, ti, t.locker, describe())
						} else {
							// same root cause in every program: reported once (by c34gateProg), counted here
							x.SetData("allow", "deadlock,horizon")
							x.Outcome = "known defect: waiter's gate dropped from locker.gates (reported by program " + c34gateProg + ")"
						}
					}
				}
			}
			return
		}
		out := ""
		for ti, res := range results {
			if res == "" {
				x.Fail("harness: thread did not record a result", "thread %d", ti)
				return
			}
			out += "t" + strconv.Itoa(ti) + "=" + res
		}
		if evDone {
			out += "event=" + c.event
		}
		if c.hold > 0 {
			n := 0
			for _, e := range srv.Log {
				if e.InTxn && strings.HasPrefix(strings.ToUpper(e.Argv[0]), "PEXPIRE") {
					n++
				}
			}
			out += " extensions=" + strconv.Itoa(n)
		}
		// a single uncontended thread must get the lock
		if len(c.thr) == 1 && c.event == "" && !strings.HasPrefix(results[0], "acquired") {
			x.Fail("uncontended lock attempt failed", "%s", results[0])
		}
		x.Outcome = out
	}
}

func c34cfgs() []c34cfg {
	w, t := "with", "try"
	two := []c34thr{{0, w, 0}, {1, w, 0}}
	return []c34cfg{
		{name: "solo-with-m1", majority: 1, lockers: 1, thr: []c34thr{{0, w, 2}}, p: 2},
		{name: "2lockers-with-try-m1", majority: 1, lockers: 2, thr: []c34thr{{0, w, 0}, {1, t, 0}}, p: 1},
		{name: "2lockers-with-force-m1", majority: 1, lockers: 2, thr: []c34thr{{0, w, 0}, {1, "force", 0}}, p: 1},
		{name: "2lockers-with-withc-m1-cancel", majority: 1, lockers: 2, thr: []c34thr{{0, w, 0}, {1, "withc", 0}}, event: "cancel", p: 1},
		{name: "1locker-with-withc-with-m1-cancel", majority: 1, lockers: 1, thr: []c34thr{{0, w, 0}, {0, "withc", 0}, {0, w, 0}}, event: "cancel", p: 1},
		{name: "2lockers-with-with-m1-extdel", majority: 1, lockers: 2, thr: two, event: "del", p: 1},
		{name: "2lockers-with-try-m1-extdel-replypt", majority: 1, lockers: 2, thr: []c34thr{{0, w, 0}, {1, t, 0}}, event: "del", replypt: true, p: 1},
		{name: "2lockers-with-with-m1-extdel-replypt", majority: 1, lockers: 2, thr: two, event: "del", replypt: true, p: 1},
		{name: "2lockers-with-with-m1-lose", majority: 1, lockers: 2, thr: two, event: "lose", p: 1},
		{name: "2lockers-with-with-m1-losere", majority: 1, lockers: 2, thr: two, event: "losere", p: 1},
		{name: "2lockers-with-with-m1-losere-other", majority: 1, lockers: 2, thr: two, event: "losere-other", p: 1},
		{name: "2lockers-with-with-m1-close", majority: 1, lockers: 2, thr: two, event: "close", p: 1},
		{name: "2lockers-with-with-m1-noloop-longhold-neterr", majority: 1, lockers: 2, thr: two, event: "neterr", noloop: true, hold: 1500 * time.Millisecond, p: 1},
		{name: "2lockers-with-with-m1-longhold-latency", majority: 1, lockers: 2, thr: two, hold: 1500 * time.Millisecond, lat: 20 * time.Millisecond, horizon: 30000, nodelay: true, p: 0},
		{name: "2lockers-with-with-m1-noloop", majority: 1, lockers: 2, thr: two, noloop: true, p: 1},
		{name: "2lockers-with-with-m1-setpx", majority: 1, lockers: 2, thr: two, setpx: true, p: 1},
		{name: "2lockers-with-with-m1-nocsc", majority: 1, lockers: 2, thr: two, nocsc: true, p: 1},
		{name: "2lockers-relock-m1", majority: 1, lockers: 2, thr: []c34thr{{0, w, 2}, {1, w, 0}}, p: 1},
		{name: "solo-relock-m2-noloop", majority: 2, lockers: 1, thr: []c34thr{{0, w, 3}}, noloop: true, p: 2},
		{name: "2lockers-relock-m2-noloop", majority: 2, lockers: 2, thr: []c34thr{{0, w, 2}, {1, w, 0}}, noloop: true, p: 1},
		{name: "2lockers-with-with-m2", majority: 2, lockers: 2, thr: two, p: 1},
		{name: "2lockers-with-with-m2-extdel", majority: 2, lockers: 2, thr: two, event: "del", p: 0},
		{name: "2lockers-with-try-m2-extdel1", majority: 2, lockers: 2, thr: []c34thr{{0, w, 0}, {1, t, 0}}, event: "del1", p: 1, tier: 1},
		{name: "2lockers-with-force-m2", majority: 2, lockers: 2, thr: []c34thr{{0, w, 0}, {1, "force", 0}}, p: 1, tier: 1},
		{name: "3lockers-with-with-with-m1", majority: 1, lockers: 3, thr: []c34thr{{0, w, 0}, {1, w, 0}, {2, w, 0}}, p: 2, tier: 1},
		{name: "2lockers-3threads-m1", majority: 1, lockers: 2, thr: []c34thr{{0, w, 0}, {0, w, 0}, {1, w, 0}}, p: 2, tier: 1},
		// the two programs explored with 2 preemptions also in the quick tier come last (they take what is left of the budget)
		{name: "1locker-with-with-m1", majority: 1, lockers: 1, thr: []c34thr{{0, w, 0}, {0, w, 0}}, p: 2},
		{name: c34gateProg, majority: 1, lockers: 2, thr: two, p: 2},
	}
}

func TestVerif_C34(t *testing.T) {
	vrun.Main(t, "C34", func(r *vrun.Run) {
		r.Rule = "every schedule (preemption/delay/deviation bounded) of 2-3 threads acquiring one lock name through real Lockers over a fake Redis; non-trivial = threads really blocked on each other"
		r.Assume("simredis models Redis 7 tracking: keys read by GET inside a script are tracked for the caller (OPTOUT), PEXPIREAT/SET/DEL/expiry invalidate, self-invalidations follow the reply unless NOLOOP; keys expire exactly on time (idealised active expiry)")
		r.Assume("the fake client delivers invalidation pushes through one reader thread per client; connection loss is Lose() (OnInvalidations(nil), every later command fails until Reconnect)")
		r.Assume("mutual exclusion is only demanded of holders that did not lose keys to an external DEL or a forced take-over (the statement's precondition); 'promptly' = without any passage of virtual time when client-side caching is on and the holder's connection is alive (the loss is announced by an invalidation push), within one extend interval otherwise; extension timers are never starved (no early timers)")
		r.Note("without NoLoopTracking every extension invalidates the holder's own tracking of the key, which triggers the next extension at once (the 'Tracking Loop' of the repository's tests): program 2lockers-with-with-m1-longhold-latency counts the PEXPIREATs of a 1.5 s hold with 20 ms round trips in its outcome (NOLOOP: 1-2)")
		r.Note("the missed wake-up 'gate dropped from locker.gates' has one root cause and is reported by program " + c34gateProg + " only; the other programs count it as an outcome")
		var cfgs []c34cfg
		for _, c := range c34cfgs() {
			if c.tier == 0 || !r.Quick() {
				cfgs = append(cfgs, c)
			}
		}
		r0, target := r.Remaining(), vrun.Pick(r, 45.0, 840.0) // seconds of exploration per shard
		for ci, c := range cfgs {
			left := target - (r0 - r.Remaining())
			if left < 1 {
				left = 1
			}
			p := c.p
			if !r.Quick() && p < 2 && c.lat == 0 {
				p = 2
			}
			hz, dl := 6000, vrun.Pick(r, 1, 2)
			if c.horizon > 0 {
				hz = c.horizon
			}
			if c.nodelay {
				dl = -1
			}
			vexp.Run(r, vexp.Prog{Name: c.name, Body: c34body(c),
				Budget:  vsched.Budget{MaxPreempt: p, MaxDev: 1},
				Delay:   dl,
				Opts:    vsched.Options{Horizon: hz, MaxVirtual: 30 * time.Second},
				Seconds: left / float64(len(cfgs)-ci)})
		}
	})
}
