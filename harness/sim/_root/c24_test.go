//go:build verif

package rueidis

import (
	"context"
	"fmt"
	"testing"
	"time"

	"github.com/redis/rueidis/vshim/vexp"
	"github.com/redis/rueidis/vshim/vrun"
	"github.com/redis/rueidis/vshim/vsched"
)

// c24wire is a fake connection: only the methods the pool touches are implemented.
type c24wire struct {
	wire
	id     int
	closed bool
	err    error
	st     *c24state
}

type c24state struct {
	x       *vsched.Exec
	cap     int
	made    int
	closedN int
	holder  map[int]string
}

// The real connection's methods are full of synchronisation operations: each fake method is a scheduling point.
func (w *c24wire) StopTimer() bool  { vsched.Point("wire.stoptimer", nil); return true }
func (w *c24wire) ResetTimer() bool { vsched.Point("wire.resettimer", nil); return true }
func (w *c24wire) Error() error     { return w.err }
func (w *c24wire) Close() {
	vsched.Point("wire.close", nil)
	if !w.closed {
		w.closed = true
		w.st.closedN++
	}
}

type c24acq struct {
	ctx   string // bg | cancel | deadline | done
	hold  string // store (acquire, then store) | forever (daemon never stores) | sleep (hold 2s of virtual time then store)
	twice bool
}

type c24cfg struct {
	name    string
	cap     int
	minSize int
	cleanup time.Duration
	acq     []c24acq
	closer  bool
	early   bool // explore early timer firing
	dev     int
}

func c24body(c c24cfg) func(x *vsched.Exec) {
	return func(x *vsched.Exec) {
		st := &c24state{x: x, cap: c.cap, holder: map[int]string{}}
		dead := deadFn()
		var p *pool
		p = newPool(c.cap, dead, c.cleanup, c.minSize, func(ctx context.Context) wire {
			st.made++
			if live := st.made - st.closedN; live > c.cap {
				x.Fail("more live connections than the pool size", "made=%d closed=%d cap=%d", st.made, st.closedN, c.cap)
			}
			return &c24wire{id: st.made, st: st}
		})
		cctx, cancel := context.WithCancel(context.Background())
		// only create the deadline context when a thread uses it: its timer would otherwise be the "earliest timer"
		// that the early-timer deviation fires instead of the cleanup timer
		var dctx context.Context = context.Background()
		for _, a := range c.acq {
			if a.ctx == "deadline" {
				var dcancel context.CancelFunc
				dctx, dcancel = context.WithTimeout(context.Background(), time.Second)
				defer dcancel()
				break
			}
		}
		donectx, dc := context.WithCancel(context.Background())
		dc()
		needCancel := false
		closed := false
		closing := false
		type res struct {
			who      string
			wire     string
			at       time.Duration
			afterCls bool
		}
		var results []res
		for i, a := range c.acq {
			i, a := i, a
			name := fmt.Sprintf("acq%d", i)
			body := func() {
				n := 1
				if a.twice {
					n = 2
				}
				for k := 0; k < n; k++ {
					var ctx context.Context = context.Background()
					switch a.ctx {
					case "cancel":
						ctx = cctx
						needCancel = true
					case "deadline":
						ctx = dctx
					case "done":
						ctx = donectx
					}
					wasClosed := closed
					w := p.Acquire(ctx)
					r := res{who: name, at: x.Elapsed(), afterCls: wasClosed}
					if w == nil {
						x.Fail("pool handed out a nil connection", "%s", name)
						results = append(results, r)
						continue
					}
					fw, ok := w.(*c24wire)
					if !ok {
						pw := w.(*pipe)
						r.wire = "dead:" + fmt.Sprint(pw.Error())
						if pw != dead && (a.ctx == "bg") {
							x.Fail("background acquire got a context-error connection", "%s got %v", name, pw.Error())
						}
						if pw == dead && !closing {
							x.Fail("dead connection handed out before Close", "%s", name)
						}
						results = append(results, r)
						continue
					}
					r.wire = fmt.Sprintf("w%d", fw.id)
					results = append(results, r)
					if wasClosed {
						x.Fail("live connection handed out after Close", "%s got %s although Close had returned before Acquire was called", name, r.wire)
					}
					if fw.closed {
						x.Fail("closed connection handed out as live", "%s got %s", name, r.wire)
					}
					if h, busy := st.holder[fw.id]; busy {
						x.Fail("one connection handed to two holders", "%s got %s while %s still holds it", name, r.wire, h)
					}
					if ctx.Err() != nil && a.ctx != "bg" {
						// acceptable: acquisition won the race with cancellation
					}
					st.holder[fw.id] = name
					switch a.hold {
					case "forever":
						vsched.Point("hold-forever", func() bool { return false })
					case "sleep":
						time.Sleep(2 * time.Second)
					default:
						vsched.Point("hold", nil)
					}
					delete(st.holder, fw.id)
					p.Store(fw)
				}
			}
			if a.hold == "forever" {
				vsched.GoDaemon(name, body)
			} else {
				vsched.GoNamed(name, body)
			}
		}
		for _, a := range c.acq {
			if a.ctx == "cancel" {
				needCancel = true
			}
		}
		if needCancel {
			vsched.GoNamed("canceller", func() { cancel() })
		}
		if c.closer {
			vsched.GoNamed("closer", func() { closing = true; p.Close(); closed = true })
		}
		status := x.Run()
		if status != vsched.Quiescent {
			return
		}
		out := ""
		for _, r := range results {
			out += r.who + "=" + r.wire + " "
			if len(r.wire) > 5 && r.wire[:5] == "dead:" && r.at > 1500*time.Millisecond {
				x.Fail("waiter with a done context returned late", "%s returned %s at virtual t=%v (deadline 1s)", r.who, r.wire, r.at)
			}
		}
		x.Outcome = out
		// accounting at quiescence
		held := 0
		for _, a := range c.acq {
			if a.hold == "forever" {
				held = len(st.holder)
			}
		}
		live := st.made - st.closedN
		if !closed {
			if p.size != len(p.list)+held {
				x.Fail("pool size accounting wrong", "size=%d idle=%d held=%d", p.size, len(p.list), held)
			}
			if live != p.size {
				x.Fail("connection leaked or lost", "live connections=%d pool size=%d", live, p.size)
			}
		} else if live != held {
			x.Fail("connection left open after Close", "live=%d held=%d", live, held)
		}
		if c.cleanup > 0 && !closed {
			// after the cleanup interval has passed with nobody acquiring, at most minSize idle connections remain
			x.Advance(2 * c.cleanup)
			x.Resume()
			if len(p.list) > c.minSize {
				x.Fail("idle connections not cleaned up", "idle=%d minSize=%d", len(p.list), c.minSize)
			}
			if st.made-st.closedN != len(p.list)+held {
				x.Fail("cleanup leaked a connection", "live=%d idle=%d", st.made-st.closedN, len(p.list))
			}
		}
	}
}

// ---- second family: the callers' side of "gets back every connection exactly once". A dedicated client gives its
// connection back through conn.Store; two threads release (or close) the same dedicated client at the same time.
type c24conn struct {
	conn
	p      *pool
	stores map[wire]int
}

func (c *c24conn) Store(w wire) {
	vsched.Point("conn.store", nil)
	c.stores[w]++
	c.p.Store(w)
}
func (c *c24conn) Acquire(ctx context.Context) wire { return c.p.Acquire(ctx) }

type c24rwire struct{ c24wire }

func (w *c24rwire) Close() {
	w.c24wire.Close()
	w.err = ErrClosing // a closed connection reports an error (as the real pipe does), so that the pool discards it
}

func c24releaseBody(kind string, ops [2]string) func(x *vsched.Exec) {
	return func(x *vsched.Exec) {
		st := &c24state{x: x, cap: 2, holder: map[int]string{}}
		p := newPool(2, deadFn(), 0, 0, func(ctx context.Context) wire {
			st.made++
			return &c24rwire{c24wire{id: st.made, st: st}}
		})
		fc := &c24conn{p: p, stores: map[wire]int{}}
		w := p.Acquire(context.Background())
		var release, closeFn func()
		switch kind {
		case "cluster":
			dc := &dedicatedClusterClient{conn: fc, wire: w}
			release, closeFn = dc.release, dc.Close
		case "single":
			ds := &dedicatedSingleClient{conn: fc, wire: w}
			release, closeFn = ds.release, ds.Close
		}
		for i, op := range ops {
			f := release
			if op == "close" {
				f = closeFn
			}
			vsched.GoNamed(fmt.Sprintf("%s%d", op, i), f)
		}
		if x.Run() != vsched.Quiescent {
			return
		}
		x.Outcome = fmt.Sprintf("stores=%d idle=%d size=%d", fc.stores[w], len(p.list), p.size)
		if fc.stores[w] != 1 {
			x.Fail("a dedicated client gave its connection back a number of times other than once", "%s %v: Store(wire) ran %d times; idle list %d entries, pool size %d", kind, ops, fc.stores[w], len(p.list), p.size)
			return
		}
		seen := map[wire]bool{}
		for _, v := range p.list {
			if seen[v] {
				x.Fail("one connection is twice in the idle list (it would be handed to two holders)", "%s %v: idle list %d entries, pool size %d", kind, ops, len(p.list), p.size)
				return
			}
			seen[v] = true
		}
		if len(p.list) > p.size || p.size < 0 {
			x.Fail("pool accounting broken after a concurrent release", "%s %v: idle list %d entries, pool size %d", kind, ops, len(p.list), p.size)
		}
	}
}

func TestVerif_C24(t *testing.T) {
	vrun.Main(t, "C24", func(r *vrun.Run) {
		r.Rule = "all interleavings within the preemption bound of 2-4 threads acquiring/storing on a real pool (cap 1-2) with fake connections, cancellers, deadline timers (virtual clock), Close and the idle-cleanup timer; plus two threads releasing / closing one dedicated client (cluster and single flavour, built white-box over a real pool) at the same time: its connection is stored exactly once; non-trivial = schedule in which a thread blocked"
		st, fv := "store", "forever"
		cfgs := []c24cfg{
			{name: "cap1/3bg", cap: 1, acq: []c24acq{{"bg", st, false}, {"bg", st, false}, {"bg", st, false}}},
			{name: "cap1/hold+cancelled-waiter", cap: 1, acq: []c24acq{{"bg", fv, false}, {"cancel", st, false}}},
			{name: "cap1/hold+deadline-waiter", cap: 1, acq: []c24acq{{"bg", fv, false}, {"deadline", st, false}}},
			{name: "cap1/sleep-holder+deadline-waiter", cap: 1, acq: []c24acq{{"bg", "sleep", false}, {"deadline", st, false}}},
			{name: "cap1/done-ctx", cap: 1, acq: []c24acq{{"bg", st, false}, {"done", st, false}}},
			{name: "cap2/3bg+close", cap: 2, acq: []c24acq{{"bg", st, false}, {"bg", st, false}, {"bg", st, false}}, closer: true},
			{name: "cap1/2x2", cap: 1, acq: []c24acq{{"bg", st, true}, {"bg", st, true}}},
			{name: "cap2/cleanup", cap: 2, cleanup: time.Second, acq: []c24acq{{"bg", st, false}, {"bg", st, false}, {"bg", st, false}}, early: true, dev: 1},
			{name: "cap2/min1/cleanup", cap: 2, minSize: 1, cleanup: time.Second, acq: []c24acq{{"bg", st, true}, {"bg", st, false}}, early: true, dev: 1},
			{name: "cap1/cancel+close", cap: 1, acq: []c24acq{{"bg", st, false}, {"cancel", st, false}}, closer: true},
		}
		P := vrun.Pick(r, 2, 3)
		for ci, c := range cfgs {
			vexp.Run(r, vexp.Prog{Name: c.name, Budget: vsched.Budget{MaxPreempt: P, MaxDev: c.dev}, Opts: vsched.Options{Horizon: 3000, EarlyTimers: c.early}, Body: c24body(c), Seconds: r.Remaining() / float64(len(cfgs)-ci)})
		}
		for _, kind := range []string{"cluster", "single"} {
			for _, ops := range [][2]string{{"release", "release"}, {"release", "close"}, {"close", "close"}} {
				vexp.Run(r, vexp.Prog{Name: fmt.Sprintf("dedicated-%s/%s|%s", kind, ops[0], ops[1]), Budget: vsched.Budget{MaxPreempt: P}, Opts: vsched.Options{Horizon: 3000}, Body: c24releaseBody(kind, ops), Seconds: 10})
			}
		}
		r.Assume("connections are fakes implementing StopTimer/ResetTimer/Error/Close; the callers' side (mux.blocking, DoStream, dedicated release) is checked over the wire in C25/C29")
	})
}
