//go:build verif

package rueidis

import (
	"bytes"
	"context"
	"errors"
	"fmt"
	"io"
	"strings"
	"testing"

	"github.com/redis/rueidis/vshim/simnet"
	"github.com/redis/rueidis/vshim/simredis"
	"github.com/redis/rueidis/vshim/vexp"
	"github.com/redis/rueidis/vshim/vrun"
	"github.com/redis/rueidis/vshim/vsched"
)

// reply kinds of the streamed commands
var c29kinds = []string{"empty", "short", "crlf", "long", "int", "float", "nil", "err", "chunked"}

// a RESP3 streamed (chunked) string reply
const c29chunkedWire = "$?\r\n;4\r\nabcd\r\n;3\r\nefg\r\n;0\r\n"

func c29payload(kind string) (cmd []string, payload string, isErr bool) {
	switch kind {
	case "empty":
		return []string{"GET", "k:empty"}, "", false
	case "short":
		return []string{"GET", "k:short"}, "a", false
	case "crlf":
		return []string{"GET", "k:crlf"}, "a\r\nb\r\n", false
	case "long":
		return []string{"GET", "k:long"}, strings.Repeat("0123456789", 4) + "xyz", false
	case "int":
		return []string{"STRLEN", "k:long"}, "43", false
	case "float":
		return []string{"VFLOAT"}, "1.5", false
	case "nil":
		return []string{"GET", "k:none"}, "", true
	case "err":
		return []string{"GET", "k:list"}, "", true
	case "chunked":
		return []string{"VCHUNK"}, "abcdefg", false
	}
	panic(kind)
}

// c29encLen is the number of bytes of the RESP3 reply of a kind.
func c29encLen(kind string) int {
	_, p, _ := c29payload(kind)
	switch kind {
	case "int":
		return len(":43\r\n")
	case "float":
		return len(",1.5\r\n")
	case "nil":
		return len("_\r\n")
	case "err":
		return len("-WRONGTYPE Operation against a key holding the wrong kind of value\r\n")
	case "chunked":
		return len(c29chunkedWire)
	}
	return len(fmt.Sprintf("$%d\r\n", len(p))) + len(p) + 2
}

type c29w struct {
	buf    bytes.Buffer
	failAt int // fail once this many bytes have been accepted (-1 never)
}

var errC29Writer = errors.New("c29: writer failed")

func (w *c29w) Write(p []byte) (int, error) {
	if w.failAt >= 0 && w.buf.Len()+len(p) > w.failAt {
		n := w.failAt - w.buf.Len()
		w.buf.Write(p[:n])
		return n, errC29Writer
	}
	return w.buf.Write(p)
}

type c29cfg struct {
	kinds []string // one command per kind (len 1: DoStream, else DoMultiStream)
	fault string   // none | writer | cut | ctxdone
	at    int      // byte offset of the fault
	chunk int      // bytes per network read
	pool  int
}

func (c c29cfg) name() string {
	return fmt.Sprintf("%s/%s@%d/chunk%d", strings.Join(c.kinds, "+"), c.fault, c.at, c.chunk)
}

func c29body(c c29cfg) func(x *vsched.Exec) {
	return func(x *vsched.Exec) {
		e := vwNew(func(o *ClientOption, srv *simredis.Server, n *simnet.Net) {
			o.BlockingPoolSize = c.pool
			srv.Do("SET", "k:empty", "")
			srv.Do("SET", "k:short", "a")
			srv.Do("SET", "k:crlf", "a\r\nb\r\n")
			srv.Do("SET", "k:long", strings.Repeat("0123456789", 4)+"xyz")
			srv.Do("RPUSH", "k:list", "x")
			srv.Extra["VFLOAT"] = func(*simredis.Ctx) simredis.Reply { return simredis.Double("1.5") }
			srv.Extra["VCHUNK"] = func(*simredis.Ctx) simredis.Reply { return simredis.Reply{T: '$', Raw: c29chunkedWire} }
			n.ReadChunk = c.chunk
		})
		if e.err != nil {
			x.Fail("client setup failed", "%v", e.err)
			return
		}
		type res struct {
			n    int64
			err  error
			data string
		}
		var results []res
		var extra error
		var extraN int64
		var follow res
		cutLeftOpen := false
		vsched.GoNamed("caller", func() {
			b := e.client.B()
			ctx, cancel := context.WithCancel(context.Background())
			defer cancel()
			if c.fault == "ctxdone" {
				cancel()
			}
			var cmds []Completed
			for _, k := range c.kinds {
				argv, _, _ := c29payload(k)
				cmds = append(cmds, b.Arbitrary(argv[0]).Keys(argv[1:]...).Build())
			}
			if c.fault == "cut" {
				e.net.OnDial = func(cn *simnet.Conn) {}
			}
			var s RedisResultStream
			if len(cmds) == 1 {
				s = e.client.DoStream(ctx, cmds[0])
			} else {
				s = e.client.DoMultiStream(ctx, cmds...)
			}
			if c.fault == "cut" {
				// the stream's connection is the newest one; cut it after c.at more bytes
				e.net.Conns[len(e.net.Conns)-1].CutAt = c.at + 1
			}
			for i := 0; s.HasNext() && i < len(cmds)+2; i++ {
				w := &c29w{failAt: -1}
				if c.fault == "writer" && i == 0 {
					w.failAt = c.at
				}
				n, err := s.WriteTo(w)
				results = append(results, res{n, err, w.buf.String()})
			}
			w := &c29w{failAt: -1}
			extraN, extra = s.WriteTo(w)
			for _, cn := range e.net.Conns {
				cn.CutAt = 0 // the fault belongs to the first stream only
				if cn.Faulted == "cut" && !cn.ClosedByClient() {
					cutLeftOpen = true // judged below; taken now, before the follow-up stream touches the pool
				}
			}
			// the pool must still work and must not leak bytes of the previous stream
			for try := 0; try < 3; try++ { // a pooled connection may have been dropped by the server meanwhile: that costs one failed attempt
				fs := e.client.DoStream(context.Background(), b.Get().Key("k:short").Build())
				fw := &c29w{failAt: -1}
				follow = res{}
				for fs.HasNext() {
					n, err := fs.WriteTo(fw)
					follow = res{n, err, fw.buf.String()}
				}
				if fs.Error() != nil && fs.Error() != io.EOF && follow.err == nil {
					follow.err = fs.Error()
				}
				if follow.err == nil {
					break
				}
				if follow.data != "" && follow.data != "a" {
					break // wrong bytes are never acceptable
				}
			}
		})
		if x.Run() != vsched.Quiescent {
			return
		}
		var out []string
		for _, r := range results {
			out = append(out, fmt.Sprintf("%q/%d/%v", r.data, r.n, r.err))
		}
		x.Outcome = fmt.Sprintf("%v extra=%v follow=%q/%v", out, extra, follow.data, follow.err)
		if c.fault == "ctxdone" {
			if len(results) != 0 || !errors.Is(extra, context.Canceled) {
				x.Fail("stream with a done context did not report the context error", "%s", x.Outcome)
			}
		} else {
			if len(results) == 0 {
				x.Fail("stream delivered nothing", "%s", x.Outcome)
			}
			broken := false
			for i, r := range results {
				if i >= len(c.kinds) {
					x.Fail("more WriteTo results than commands", "%s", x.Outcome)
					break
				}
				_, payload, isErr := c29payload(c.kinds[i])
				if isErr && r.err != nil {
					if _, ok := r.err.(*RedisError); !ok && !IsRedisNil(r.err) {
						isErr = false // not the reply's own error but a transport failure while reading it
					}
				}
				switch {
				case broken:
					x.Fail("stream continued after an incomplete reply", "%s", x.Outcome)
				case r.err == nil:
					if isErr {
						x.Fail("nil / error reply was not reported as an error", "command %d (%s): %s", i, c.kinds[i], x.Outcome)
					}
					if r.data != payload || r.n != int64(len(payload)) {
						x.Fail("streamed bytes differ from the reply payload", "command %d (%s): wrote %q (n=%d) want %q", i, c.kinds[i], r.data, r.n, payload)
					}
				default:
					if !strings.HasPrefix(payload, r.data) {
						x.Fail("bytes written before a failure are not a prefix of the payload", "command %d (%s): wrote %q want prefix of %q", i, c.kinds[i], r.data, payload)
					}
					if !isErr {
						if c.fault == "none" {
							x.Fail("streaming failed without a fault", "command %d (%s): %v", i, c.kinds[i], r.err)
						}
						if r.err != errC29Writer {
							broken = true // transport failure: the reply could not be consumed completely
						}
					} else if r.data != "" {
						x.Fail("nil / error reply wrote bytes", "command %d (%s): %q", i, c.kinds[i], r.data)
					}
				}
			}
			if !broken && len(results) != len(c.kinds) {
				x.Fail("not exactly one WriteTo per command", "%d results for %d commands: %s", len(results), len(c.kinds), x.Outcome)
			}
			if broken {
				// the client has seen that a reply could not be consumed completely: that connection must be closed before it
				// is given back, whatever the error value was (a clean close by the peer reads as io.EOF)
				if cutLeftOpen {
					x.Fail("connection not closed although a reply could not be consumed completely", "the stream's connection was cut inside a reply (the caller got %v) and was still open on the client side when the stream had ended: it went back to the pool as it was; %s", results[len(results)-1].err, x.Outcome)
				}
			}
			if extra == nil || extraN != 0 {
				x.Fail("WriteTo after the last reply did not fail", "extra n=%d err=%v", extraN, extra)
			} else if !broken && extra != io.EOF {
				x.Fail("WriteTo after the last reply did not report io.EOF", "got %v", extra)
			}
		}
		if follow.err != nil || follow.data != "a" {
			x.Fail("the pool did not hand out a clean connection after the stream", "follow-up stream wrote %q err %v; %s", follow.data, follow.err, x.Outcome)
		}
		// pool accounting: every connection handed out was stored or closed exactly once
		if sc, ok := e.client.(*singleClient); ok {
			if m, ok := sc.conn.(*mux); ok {
				if m.spool.size != len(m.spool.list) {
					x.Fail("streaming connection not returned to the pool", "size %d idle %d", m.spool.size, len(m.spool.list))
				}
				seen := map[wire]bool{}
				for _, w := range m.spool.list {
					if seen[w] {
						x.Fail("streaming connection returned to the pool twice", "")
					}
					seen[w] = true
					if w.Error() != nil {
						x.Fail("broken connection kept in the pool", "%v", w.Error())
					}
				}
			}
		}
		live := 0
		for _, cn := range e.net.Conns[1:] {
			if !cn.ClosedByClient() && cn.Faulted == "" {
				live++
			}
		}
		if live > c.pool {
			x.Fail("more live streaming connections than BlockingPoolSize", "live %d", live)
		}
	}
}

// c29concurrent: two or three callers stream different replies through a pool of one connection at the same time; one
// of them may have a failing writer or a cut connection. Every caller that gets bytes gets exactly its own payload,
// and afterwards the pool hands out a clean connection.
func c29concurrent(kinds []string, fault string) func(x *vsched.Exec) {
	return func(x *vsched.Exec) {
		e := vwNew(func(o *ClientOption, srv *simredis.Server, n *simnet.Net) {
			o.BlockingPoolSize = 1
			srv.Do("SET", "k:empty", "")
			srv.Do("SET", "k:short", "a")
			srv.Do("SET", "k:crlf", "a\r\nb\r\n")
			srv.Do("SET", "k:long", strings.Repeat("0123456789", 4)+"xyz")
			srv.Do("RPUSH", "k:list", "x")
			srv.Extra["VFLOAT"] = func(*simredis.Ctx) simredis.Reply { return simredis.Double("1.5") }
			srv.Extra["VCHUNK"] = func(*simredis.Ctx) simredis.Reply { return simredis.Reply{T: '$', Raw: c29chunkedWire} }
		})
		if e.err != nil {
			x.Fail("client setup failed", "%v", e.err)
			return
		}
		type res struct {
			kind, data string
			n          int64
			err        error
		}
		results := make([]*res, len(kinds))
		for i, k := range kinds {
			i, k := i, k
			vsched.GoNamed(fmt.Sprintf("s%d", i), func() {
				argv, _, _ := c29payload(k)
				b := e.client.B()
				s := e.client.DoStream(context.Background(), b.Arbitrary(argv[0]).Keys(argv[1:]...).Build())
				if i == 0 && fault == "cut" && len(e.net.Conns) > 1 {
					e.net.Conns[len(e.net.Conns)-1].CutAt = 3
				}
				w := &c29w{failAt: -1}
				if i == 0 && fault == "writer" {
					w.failAt = 1
				}
				r := &res{kind: k}
				for s.HasNext() {
					r.n, r.err = s.WriteTo(w)
				}
				if r.err == nil && s.Error() != nil && s.Error() != io.EOF {
					r.err = s.Error()
				}
				r.data = w.buf.String()
				results[i] = r
			})
		}
		if x.Run() != vsched.Quiescent {
			return
		}
		for _, cn := range e.net.Conns {
			cn.CutAt = 0
		}
		var out []string
		for i, r := range results {
			if r == nil {
				x.Fail("a streaming caller did not finish", "caller %d", i)
				return
			}
			_, payload, isErr := c29payload(r.kind)
			out = append(out, fmt.Sprintf("%s=%q/%v", r.kind, r.data, r.err))
			switch {
			case r.err == nil:
				if isErr {
					x.Fail("nil / error reply was not reported as an error", "caller %d (%s)", i, r.kind)
				}
				if r.data != payload {
					x.Fail("streamed bytes differ from the reply payload", "caller %d (%s) wrote %q want %q; all %v", i, r.kind, r.data, payload, out)
				}
			default:
				if !strings.HasPrefix(payload, r.data) {
					x.Fail("bytes written before a failure are not a prefix of the payload", "caller %d (%s) wrote %q want a prefix of %q", i, r.kind, r.data, payload)
				}
				if !isErr && fault == "none" {
					x.Fail("streaming failed without a fault", "caller %d (%s): %v", i, r.kind, r.err)
				}
			}
		}
		x.Outcome = strings.Join(out, " ")
		if sc, ok := e.client.(*singleClient); ok {
			if m, ok := sc.conn.(*mux); ok {
				if m.spool.size != len(m.spool.list) {
					x.Fail("streaming connection not returned to the pool", "size %d idle %d; %s", m.spool.size, len(m.spool.list), x.Outcome)
				}
				for _, w := range m.spool.list {
					if w.Error() != nil {
						x.Fail("broken connection kept in the pool", "%v", w.Error())
					}
				}
			}
		}
	}
}

func TestVerif_C29(t *testing.T) {
	vrun.Main(t, "C29", func(r *vrun.Run) {
		r.Rule = "DoStream for every reply kind {empty, short, CRLF-containing, 43-byte string, RESP3 streamed (chunked) string, integer, float, nil, error} and DoMultiStream for every pair (thorough: triple) of kinds x fault {none, writer fails at every byte offset, connection cut at every byte offset of the reply stream, context already done} x network read sizes {1 byte, unlimited}; one deterministic execution each plus a follow-up stream on the same pool; oracle: bytes written = payload, nil/error replies are errors, one WriteTo per command then io.EOF, connection back in the pool exactly once and clean; plus 2-3 concurrent streaming callers on a pool of one connection (one with a failing writer or a cut connection), all schedules within the preemption/delay bound"
		var cfgs []c29cfg
		seqs := [][]string{}
		for _, a := range c29kinds {
			seqs = append(seqs, []string{a})
		}
		for _, a := range c29kinds {
			for _, b := range c29kinds {
				seqs = append(seqs, []string{a, b})
				if !r.Quick() {
					for _, c := range []string{"short", "nil", "long"} {
						seqs = append(seqs, []string{a, b, c})
					}
				}
			}
		}
		for _, sq := range seqs {
			total := 0
			for _, k := range sq {
				total += c29encLen(k)
			}
			for _, chunk := range []int{0, 1} {
				cfgs = append(cfgs, c29cfg{kinds: sq, fault: "none", chunk: chunk, pool: 1})
				if chunk == 1 && len(sq) > 1 && r.Quick() {
					continue
				}
				_, p0, _ := c29payload(sq[0])
				for j := 0; j <= len(p0); j++ {
					cfgs = append(cfgs, c29cfg{kinds: sq, fault: "writer", at: j, chunk: chunk, pool: 1})
				}
				step := 1
				if len(sq) > 1 && r.Quick() {
					step = 3
				}
				for j := 0; j < total; j += step {
					cfgs = append(cfgs, c29cfg{kinds: sq, fault: "cut", at: j, chunk: chunk, pool: 1})
				}
			}
			cfgs = append(cfgs, c29cfg{kinds: sq, fault: "ctxdone", pool: 1})
		}
		for ci, c := range cfgs {
			if !r.Mine(ci) {
				continue
			}
			if r.TimeUp() {
				break
			}
			vexp.Run(r, vexp.Prog{Name: c.name(), NoShard: true, Delay: -1, Budget: vsched.Budget{MaxPreempt: 0}, Opts: vsched.Options{Horizon: 30000}, Body: c29body(c)})
		}
		delete(r.Bounds, "programs")
		// concurrent streamers on a pool of one connection (explored schedules)
		conc := []struct {
			kinds []string
			fault string
		}{{[]string{"long", "short"}, "none"}, {[]string{"chunked", "int", "nil"}, "none"}, {[]string{"long", "crlf"}, "writer"}, {[]string{"long", "short"}, "cut"}}
		for ci, cc := range conc {
			if !r.Mine(len(cfgs) + ci) {
				continue
			}
			vexp.Run(r, vexp.Prog{Name: "concurrent/" + strings.Join(cc.kinds, "|") + "/" + cc.fault, NoShard: true, Delay: 1, Budget: vsched.Budget{MaxPreempt: vrun.Pick(r, 1, 2)}, Opts: vsched.Options{Horizon: 30000}, Body: c29concurrent(cc.kinds, cc.fault), Seconds: vrun.Pick(r, 10.0, 90.0)})
		}
		r.Bounds["cases"] = len(cfgs)
		r.Assume("streamed (chunked) strings are covered at the decoder level by C12; the fake server sends plain RESP3 replies")
	})
}
