//go:build verif

package rueidis

import (
	"context"
	"crypto/tls"
	"fmt"
	"net"
	"strings"
	"time"

	"github.com/redis/rueidis/vshim/simnet"
	"github.com/redis/rueidis/vshim/simredis"
)

// vwEnv is a real rueidis client talking to the fake server over the fake network.
type vwEnv struct {
	srv    *simredis.Server
	net    *simnet.Net
	client Client
	err    error
}

func vwOption(n *simnet.Net) ClientOption {
	return ClientOption{
		InitAddress:       []string{"sim:6379"},
		ForceSingleClient: true,
		PipelineMultiplex: -1,
		RingScaleEachConn: 1,
		DisableRetry:      true,
		Dialer:            net.Dialer{KeepAlive: -1}, // no keep-alive pings unless a harness asks for them
		DialCtxFn: func(ctx context.Context, dst string, d *net.Dialer, cfg *tls.Config) (net.Conn, error) {
			c, err := n.Dial()
			if err != nil {
				return nil, err
			}
			return c, nil
		},
	}
}

// vwNew builds server, network and client (the handshake runs serially in the harness body).
func vwNew(mod func(o *ClientOption, srv *simredis.Server, n *simnet.Net)) *vwEnv {
	srv := simredis.New()
	n := simnet.New(srv)
	o := vwOption(n)
	if mod != nil {
		mod(&o, srv, n)
	}
	e := &vwEnv{srv: srv, net: n}
	e.client, e.err = NewClient(o)
	return e
}

func (e *vwEnv) pipe0() *pipe {
	sc, ok := e.client.(*singleClient)
	if !ok {
		return nil
	}
	m, ok := sc.conn.(*mux)
	if !ok {
		return nil
	}
	p, _ := m.muxwires[0].wire.Load().(*pipe)
	return p
}

// executed returns how often a command whose argv contains tag was executed by the server.
func (e *vwEnv) executed(tag string) int {
	n := 0
	for _, l := range e.srv.Log {
		if n0 := strings.ToUpper(l.Argv[0]); n0 == "PTTL" || n0 == "TTL" {
			continue // companion of a cached read, not the read itself
		}
		for _, a := range l.Argv {
			if a == tag {
				n++
				break
			}
		}
	}
	return n
}

func vwErrStr(err error) string {
	if err == nil {
		return "<nil>"
	}
	return err.Error()
}

var _ = fmt.Sprint
var _ = time.Second
