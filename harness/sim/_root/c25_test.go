//go:build verif

package rueidis

import (
	"context"
	"fmt"
	"strings"
	"testing"
	"time"

	"github.com/redis/rueidis/vshim/simnet"
	"github.com/redis/rueidis/vshim/simredis"
	"github.com/redis/rueidis/vshim/vexp"
	"github.com/redis/rueidis/vshim/vrun"
	"github.com/redis/rueidis/vshim/vsched"
)

type c25cfg struct {
	name    string
	pool    int
	shared  bool // a thread issues commands on the shared pipeline meanwhile
	blocker bool // a thread runs a blocking BLPOP through the same pool
	hooks   bool // the dedicated session installs Pub/Sub hooks and subscribes
	twoDed  bool // two dedicated sessions run concurrently
	viaFn   bool // Dedicated(fn) instead of Dedicate()/cancel
	// stale: retries are on; the session's retryable GET is answered LOADING once, another thread releases the
	// session at any point, a later holder runs its own transaction on the (only) pooled connection
	stale bool
}

func c25stale(c c25cfg) func(x *vsched.Exec) {
	return func(x *vsched.Exec) {
		released := false
		retryAfterRelease := false
		arrivals, lateArrival := 0, false
		e := vwNew(func(o *ClientOption, srv *simredis.Server, n *simnet.Net) {
			o.BlockingPoolSize = 1
			o.DisableRetry = false
			o.RetryDelay = func(attempts int, cmd Completed, err error) time.Duration {
				if released {
					retryAfterRelease = true // the retry is decided after the release has completed: it must be refused
				}
				return 10 * time.Millisecond
			}
			srv.Do("SET", "k", "0")
			srv.Hook = func(ss *simredis.Session, argv []string) *simredis.Reply {
				if len(argv) == 2 && strings.ToUpper(argv[0]) == "GET" && argv[1] == "stale" {
					arrivals++
					if arrivals == 1 {
						r := simredis.Err("LOADING Redis is loading the dataset in memory")
						return &r
					}
					if retryAfterRelease {
						lateArrival = true
					}
				}
				return nil
			}
		})
		if e.err != nil {
			x.Fail("client setup failed", "%v", e.err)
			return
		}
		ctx := context.Background()
		var staleErr error
		started := false
		dc, cancel := e.client.Dedicate()
		vsched.GoNamed("ded1", func() {
			started = true
			staleErr = dc.Do(ctx, dc.B().Get().Key("stale").Build()).Error()
		})
		vsched.GoNamed("releaser", func() {
			vsched.Point("gate-start", func() bool { return started })
			cancel()
			released = true
		})
		vsched.GoNamed("next-holder", func() {
			vsched.Point("gate-release", func() bool { return released })
			e.client.Dedicated(func(d2 DedicatedClient) error {
				b := d2.B()
				d2.Do(ctx, b.Echo().Message("n-start").Build())
				d2.Do(ctx, b.Watch().Key("k").Build())
				d2.DoMulti(ctx, b.Multi().Build(), b.Set().Key("k").Value("n").Build(), b.Exec().Build())
				d2.Do(ctx, b.Echo().Message("n-end").Build())
				return nil
			})
		})
		if x.Run() != vsched.Quiescent {
			return
		}
		if lateArrival {
			x.Fail("a released dedicated client sent a command", "GET stale was answered LOADING; the session was released before the retry was decided, yet the retry reached the server (arrivals %d); the call returned %v", arrivals, staleErr)
		}
		if retryAfterRelease && staleErr != ErrDedicatedClientRecycled && arrivals > 1 {
			x.Fail("released dedicated client accepted a call", "retry after release returned %v", staleErr)
		}
		for _, ss := range e.srv.Sessions {
			var window []string
			in := false
			for _, a := range ss.Received {
				j := strings.Join(a, " ")
				if j == "ECHO n-start" {
					in = true
				}
				if in && j != "GET stale" {
					// A call that passed the recycled-check before the release completed may still be written afterwards
					// (check and write are not atomic; calling Do concurrently with the release is the caller's race).
					// What must not happen - a send decided after the release - is judged above (lateArrival).
					window = append(window, j)
				}
				if j == "ECHO n-end" {
					in = false
				}
			}
			want := "ECHO n-start|WATCH k|MULTI|SET k n|EXEC|ECHO n-end"
			if len(window) > 0 && strings.Join(window, "|") != want {
				x.Fail("commands of another caller interleaved with a dedicated session", "the later holder's connection received %v between its first and last command", window)
			}
		}
		x.Outcome = fmt.Sprintf("arrivals=%d err=%v retryAfterRelease=%v", arrivals, vwErrStr(staleErr), retryAfterRelease)
	}
}

func c25body(c c25cfg) func(x *vsched.Exec) {
	return func(x *vsched.Exec) {
		e := vwNew(func(o *ClientOption, srv *simredis.Server, n *simnet.Net) {
			o.BlockingPoolSize = c.pool
			srv.Do("SET", "k", "0")
		})
		if e.err != nil {
			x.Fail("client setup failed", "%v", e.err)
			return
		}
		ctx := context.Background()
		var late []error
		var hookCh <-chan error
		var txnOK []bool
		finished := 0
		session := func(id string, dc DedicatedClient) {
			b := dc.B()
			if c.hooks {
				hookCh = dc.SetPubSubHooks(PubSubHooks{OnMessage: func(PubSubMessage) {}, OnSubscription: func(PubSubSubscription) {}})
				dc.Do(ctx, b.Subscribe().Channel("ch-"+id).Build())
			}
			dc.Do(ctx, b.Echo().Message(id+"-start").Build())
			dc.Do(ctx, b.Watch().Key("k").Build())
			rs := dc.DoMulti(ctx, b.Multi().Build(), b.Set().Key("k").Value(id).Build(), b.Exec().Build())
			_, err := rs[2].ToArray()
			txnOK = append(txnOK, err == nil)
			dc.Do(ctx, b.Echo().Message(id+"-end").Build())
		}
		runDed := func(id string) {
			if c.viaFn {
				var keep DedicatedClient
				e.client.Dedicated(func(dc DedicatedClient) error {
					keep = dc
					session(id, dc)
					return nil
				})
				late = append(late, keep.Do(ctx, keep.B().Echo().Message("late-"+id).Build()).Error())
			} else {
				dc, cancel := e.client.Dedicate()
				session(id, dc)
				cancel()
				late = append(late, dc.Do(ctx, dc.B().Echo().Message("late-"+id).Build()).Error())
				late = append(late, dc.DoMulti(ctx, dc.B().Echo().Message("late2-"+id).Build())[0].Error())
				cancel() // releasing twice must be harmless
			}
		}
		vsched.GoNamed("ded1", func() {
			runDed("d1")
			finished++
		})
		if c.twoDed {
			vsched.GoNamed("ded2", func() {
				runDed("d2")
				finished++
			})
		}
		if c.shared {
			vsched.GoNamed("shared", func() {
				b := e.client.B()
				e.client.Do(ctx, b.Echo().Message("s1").Build())
				e.client.Do(ctx, b.Echo().Message("s2").Build())
			})
		}
		if c.blocker {
			vsched.GoNamed("blocker", func() {
				e.client.Do(ctx, e.client.B().Blpop().Key("list").Timeout(0).Build())
			})
			vsched.GoNamed("pusher", func() {
				vsched.Point("push", nil)
				e.srv.Do("RPUSH", "list", "x")
			})
		}
		// a later holder reuses a pooled connection
		nded := 1
		if c.twoDed {
			nded = 2
		}
		vsched.GoNamed("next-holder", func() {
			vsched.Point("gate-next", func() bool { return finished >= nded })
			e.client.Dedicated(func(dc DedicatedClient) error {
				return dc.Do(ctx, dc.B().Echo().Message("next-holder").Build()).Error()
			})
		})
		if x.Run() != vsched.Quiescent {
			return
		}
		// ---- oracle on the server's per-connection logs
		for _, id := range []string{"d1", "d2"} {
			if id == "d2" && !c.twoDed {
				continue
			}
			var sess *simredis.Session
			for _, s := range e.srv.Sessions {
				for _, a := range s.Executed {
					if len(a) == 2 && a[1] == id+"-start" {
						sess = s
					}
				}
			}
			if sess == nil {
				x.Fail("dedicated session never reached the server", "%s", id)
				continue
			}
			var window []string
			in := false
			for _, a := range sess.Received { // arrival order on this connection (queued commands are executed at EXEC)
				j := strings.Join(a, " ")
				if j == "ECHO "+id+"-start" {
					in = true
				}
				if in {
					window = append(window, j)
				}
				if j == "ECHO "+id+"-end" {
					break
				}
			}
			want := []string{"ECHO " + id + "-start", "WATCH k", "MULTI", "SET k " + id, "EXEC", "ECHO " + id + "-end"}
			if strings.Join(window, "|") != strings.Join(want, "|") {
				x.Fail("commands of another caller interleaved with a dedicated session", "connection of %s executed %v between its first and last command, want %v", id, window, want)
			}
			// before the connection serves another holder it must be clean
			endIdx, nextIdx := -1, -1
			for i, a := range sess.Received {
				j := strings.Join(a, " ")
				if j == "ECHO "+id+"-end" {
					endIdx = i
				}
				if endIdx >= 0 && i > endIdx && nextIdx < 0 && strings.HasPrefix(j, "ECHO ") && !strings.HasPrefix(j, "ECHO late") {
					nextIdx = i
				}
			}
			if nextIdx >= 0 && c.hooks {
				cleaned := false
				for _, a := range sess.Received[endIdx:nextIdx] {
					if strings.ToUpper(a[0]) == "UNSUBSCRIBE" {
						cleaned = true
					}
				}
				if !cleaned {
					x.Fail("connection reused without cleaning the dedicated client's subscriptions", "log %v", sess.Received[endIdx:nextIdx+1])
				}
			}
		}
		for _, err := range late {
			if err != ErrDedicatedClientRecycled {
				x.Fail("released dedicated client accepted a call", "got %v", err)
			}
		}
		for _, s := range e.srv.Sessions {
			for _, a := range s.Executed {
				if len(a) == 2 && a[1] == "next-holder" && (len(s.Subs) > 0 || len(s.PSubs) > 0 || len(s.SSubs) > 0) {
					x.Fail("next holder's connection still has Pub/Sub subscriptions", "subs %v", s.Subs)
				}
			}
		}
		if c.hooks && hookCh != nil {
			select {
			case _, ok := <-hookCh:
				if ok {
					if _, ok2 := <-hookCh; ok2 {
						x.Fail("hook channel delivered more than one value", "")
					}
				}
			default:
				x.Fail("hook channel not closed after release", "")
			}
		}
		if sc, ok := e.client.(*singleClient); ok {
			if m, ok := sc.conn.(*mux); ok {
				seen := map[wire]bool{}
				for _, w := range m.dpool.list {
					if seen[w] {
						x.Fail("one connection is in the pool twice (could be handed to two holders)", "idle list %d entries", len(m.dpool.list))
					}
					seen[w] = true
				}
				if m.dpool.size < len(m.dpool.list) {
					x.Fail("pool accounting broken after release", "size %d idle %d", m.dpool.size, len(m.dpool.list))
				}
			}
		}
		live := 0
		for _, cn := range e.net.Conns[1:] {
			if !cn.ClosedByClient() {
				live++
			}
		}
		if live > c.pool {
			x.Fail("more pooled connections than BlockingPoolSize", "live %d pool %d", live, c.pool)
		}
		x.Outcome = fmt.Sprintf("txn=%v conns=%d", txnOK, len(e.net.Conns))
	}
}

// c25blocking: a dedicated session issues a batch that contains a blocking command (BLPOP on an empty list) with a
// context that another thread cancels at any point, then releases the session. The connection still has the BLPOP
// outstanding: it must not be handed to the next holder (it has to be closed), the release must not wait for the
// BLPOP, and an element pushed later must not be swallowed by the abandoned BLPOP.
func c25blocking(viaDo bool) func(x *vsched.Exec) {
	return func(x *vsched.Exec) {
		e := vwNew(func(o *ClientOption, srv *simredis.Server, n *simnet.Net) {
			o.BlockingPoolSize = 1
		})
		if e.err != nil {
			x.Fail("client setup failed", "%v", e.err)
			return
		}
		cctx, cancel := context.WithCancel(context.Background())
		released, nextDone := false, false
		var sessErr error
		vsched.GoNamed("ded1", func() {
			dc, release := e.client.Dedicate()
			b := dc.B()
			if viaDo {
				sessErr = dc.Do(cctx, b.Blpop().Key("list").Timeout(0).Build()).Error()
			} else {
				rs := dc.DoMulti(cctx, b.Echo().Message("d1-start").Build(), b.Blpop().Key("list").Timeout(0).Build())
				sessErr = rs[len(rs)-1].Error()
			}
			release()
			released = true
		})
		vsched.GoNamed("canceller", func() { cancel() })
		vsched.GoNamed("next-holder", func() {
			vsched.Point("gate-release", func() bool { return released })
			e.client.Dedicated(func(d2 DedicatedClient) error {
				d2.Do(context.Background(), d2.B().Echo().Message("n-start").Build())
				d2.Do(context.Background(), d2.B().Echo().Message("n-end").Build())
				return nil
			})
			nextDone = true
			e.srv.Do("RPUSH", "list", "x")
		})
		if x.Run() != vsched.Quiescent {
			return // a release that waits for the abandoned BLPOP shows up as a deadlock
		}
		if !nextDone {
			x.Fail("harness: next holder did not finish", "")
			return
		}
		for _, ss := range e.srv.Sessions {
			blpopAt, startAt := -1, -1
			for i, a := range ss.Received {
				if strings.ToUpper(a[0]) == "BLPOP" {
					blpopAt = i
				}
				if len(a) == 2 && a[1] == "n-start" {
					startAt = i
				}
			}
			if blpopAt >= 0 && startAt > blpopAt {
				x.Fail("connection with an abandoned blocking command handed to the next holder", "the next holder's commands were sent on the connection that still has BLPOP outstanding: %v", ss.Received)
			}
		}
		if n := e.srv.Do("LLEN", "list"); n.I != 1 {
			x.Fail("an element pushed after the session ended was swallowed by the abandoned blocking command", "LLEN list = %d after RPUSH list x (the BLPOP's caller had given up and released its session before)", n.I)
		}
		x.Outcome = fmt.Sprintf("session err=%s", vwErrStr(sessErr))
	}
}

func TestVerif_C25(t *testing.T) {
	vrun.Main(t, "C25", func(r *vrun.Run) {
		r.Rule = "a dedicated session (WATCH; MULTI; SET; EXEC, optionally Pub/Sub hooks + SUBSCRIBE) through Dedicate()/cancel and Dedicated(fn), concurrently with a second dedicated session, shared-pipeline commands and a blocking BLPOP on the same pool (size 1-2), followed by a later holder reusing the pooled connection; plus a session that abandons a blocking command (Do / batch with BLPOP, context cancelled at any point) and releases, after which the next holder must get another connection and a later push must not be swallowed; plus a session whose retryable command is in retry back-off (LOADING once, retries on) while another thread releases it and a later holder runs its transaction on the same connection; all schedules within the preemption/delay bound; oracle on the fake server's per-connection command logs"
		cfgs := []c25cfg{
			{name: "pool1/ded+shared", pool: 1, shared: true},
			{name: "pool1/fn/ded+shared", pool: 1, shared: true, viaFn: true},
			{name: "pool1/ded|ded", pool: 1, twoDed: true},
			{name: "pool2/ded|ded+shared", pool: 2, twoDed: true, shared: true},
			{name: "pool2/ded+blocker", pool: 2, blocker: true},
			{name: "pool1/hooks/ded+shared", pool: 1, hooks: true, shared: true},
			{name: "pool1/hooks/fn/ded|ded", pool: 1, hooks: true, twoDed: true, viaFn: true},
		}
		cfgs = append(cfgs, c25cfg{name: "pool1/stale-retry|release|next-holder", pool: 1, stale: true})
		for ci, c := range cfgs {
			body := c25body(c)
			if c.stale {
				body = c25stale(c)
			}
			vexp.Run(r, vexp.Prog{Name: c.name, Delay: 1, Budget: vsched.Budget{MaxPreempt: vrun.Pick(r, 1, 2)}, Opts: vsched.Options{Horizon: 20000, MaxVirtual: time.Minute}, Body: body, Seconds: r.Remaining() / float64(len(cfgs)-ci)})
		}
		for _, viaDo := range []bool{false, true} {
			name := "pool1/blocking-batch-cancel|release|next-holder"
			if viaDo {
				name = "pool1/blocking-do-cancel|release|next-holder"
			}
			vexp.Run(r, vexp.Prog{Name: name, Delay: 1, Budget: vsched.Budget{MaxPreempt: vrun.Pick(r, 1, 2)}, Opts: vsched.Options{Horizon: 20000, MaxVirtual: time.Minute}, Body: c25blocking(viaDo), Seconds: vrun.Pick(r, 10.0, 60.0)})
		}
		r.Assume("isolation is judged on the fake server's per-connection command log between the session's first and last command")
	})
}
