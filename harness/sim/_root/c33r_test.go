//go:build verif

package rueidis

import (
	"context"
	"fmt"
	"strings"
	"testing"
	"time"

	"github.com/redis/rueidis/vshim/simnet"
	"github.com/redis/rueidis/vshim/simredis"
	"github.com/redis/rueidis/vshim/vexp"
	"github.com/redis/rueidis/vshim/vrun"
	"github.com/redis/rueidis/vshim/vsched"
)

// C33 (second half): the client never modifies or recycles a command before it has been completely written,
// even when the caller abandons the call.
//
// Every caller runs a list of operations; after EVERY operation it at once builds two further commands of
// different lengths (the command pool of the simulated build is a LIFO free list: a command recycled too early
// is handed out again by the very next Build and overwritten while the writer may still have to send it) and
// sends them. Operations with the suffix "cancel" use a context that another thread cancels at any point.
// op kinds: do | docancel | multi | multicancel | dedicated-cancel | pin (a pinned command sent twice, the first time cancellable)
// | timeout (Do with a deadline that fires while the reply is withheld)
type c33rcfg struct {
	name    string
	callers [][]string
	always  bool
	flow    bool
	stall   bool // the server withholds the reply of the first cancellable command for 10ms (virtual)
	retry   bool // retries on (delay 0); the server answers LOADING once to the command whose key starts with "loading."
}

func c33rbody(c c33rcfg) func(x *vsched.Exec) {
	return func(x *vsched.Exec) {
		old := queueTypeFromEnv
		if c.flow {
			queueTypeFromEnv = queueTypeFlowBuffer
		} else {
			queueTypeFromEnv = ""
		}
		defer func() { queueTypeFromEnv = old }()
		e := vwNew(func(o *ClientOption, srv *simredis.Server, n *simnet.Net) {
			o.AlwaysPipelining = c.always
			if c.retry {
				o.DisableRetry = false
				o.RetryDelay = func(int, Completed, error) time.Duration { return 0 }
				loaded := false
				srv.Hook = func(ss *simredis.Session, argv []string) *simredis.Reply {
					if !loaded && len(argv) > 1 && strings.HasPrefix(argv[1], "loading.") {
						loaded = true
						r := simredis.Err("LOADING Redis is loading the dataset in memory")
						return &r
					}
					return nil
				}
			}
			if c.stall {
				done := false
				n.Script = func(cn *simnet.Conn, argv []string) int {
					if !done && len(argv) > 1 && strings.HasPrefix(argv[1], "main.") {
						done = true
						vsched.AddTimer(10*time.Millisecond, func() { cn.Release() })
						return simnet.FaultStall
					}
					return simnet.FaultNone
				}
			}
		})
		if e.err != nil {
			x.Fail("client setup failed", "%v", e.err)
			return
		}
		// what the client sent before the callers start (handshake) is not judged
		skip := map[*simredis.Session]int{}
		for _, ss := range e.srv.Sessions {
			skip[ss] = len(ss.Received)
		}
		built := map[string]int{}    // argv (joined) -> how often it may arrive
		required := map[string]int{} // argv -> how often it must arrive
		var errs []string
		// a deadline that fires on the synchronous path closes the connection for every caller (DisableRetry is set):
		// in such programs nothing is required to arrive, only what arrives must be intact
		lossy := false
		for _, ops := range c.callers {
			for _, op := range ops {
				if op == "timeout" {
					lossy = true
				}
			}
		}
		note := func(cmd Completed, may, must int) {
			if lossy {
				must = 0
			}
			k := strings.Join(cmd.Commands(), "\x00")
			built[k] += may
			required[k] += must
		}
		for ci, ops := range c.callers {
			ci, ops := ci, ops
			who := fmt.Sprintf("c%d", ci)
			cctx, cancel := context.WithCancel(context.Background())
			needCancel := false
			for _, op := range ops {
				if strings.HasSuffix(op, "cancel") || op == "pin" {
					needCancel = true
				}
			}
			if needCancel {
				vsched.GoNamed(who+".canceller", func() { cancel() })
			}
			vsched.GoNamed(who, func() {
				for oi, op := range ops {
					t := fmt.Sprintf("%s.%d", who, oi)
					b := e.client.B()
					bg := context.Background()
					switch op {
					case "do", "docancel", "timeout":
						ctx, must := bg, 1
						if op == "docancel" {
							ctx, must = cctx, 0
						}
						if op == "timeout" {
							var cf context.CancelFunc
							ctx, cf = context.WithTimeout(bg, 5*time.Millisecond)
							defer cf()
							must = 0
						}
						cmd := b.Set().Key("main." + t).Value("value-of-" + t).ExSeconds(100).Build()
						note(cmd, 1, must)
						if err := e.client.Do(ctx, cmd).Error(); err != nil && must == 1 {
							errs = append(errs, fmt.Sprintf("%s %s: %v", who, op, err))
						}
					case "multi", "multicancel":
						ctx, must := bg, 1
						if op == "multicancel" {
							ctx, must = cctx, 0
						}
						c1 := b.Set().Key("main." + t + "a").Value("value-of-" + t + "a").Build()
						c2 := b.Rpush().Key("main."+t+"b").Element("e1", "e2", "e3-"+t).Build()
						note(c1, 1, must)
						note(c2, 1, must)
						for _, r := range e.client.DoMulti(ctx, c1, c2) {
							if err := r.Error(); err != nil && must == 1 {
								errs = append(errs, fmt.Sprintf("%s %s: %v", who, op, err))
							}
						}
					case "dedicated-cancel":
						cmd := b.Set().Key("main." + t).Value("value-of-" + t).ExSeconds(100).Build()
						note(cmd, 1, 0)
						e.client.Dedicated(func(dc DedicatedClient) error {
							dc.Do(cctx, cmd)
							return nil
						})
					case "cachecancel", "mgetcancel", "mcachecancel":
						// client-side-caching reads are rewritten into CLIENT CACHING YES / MULTI / PTTL k.. / GET|MGET k.. / EXEC,
						// partly built from pooled commands; the caller abandons the call at any point
						k1, k2 := "main."+t+".k1", "main."+t+".k2"
						allow := func(argv ...string) { built[strings.Join(argv, "\x00")]++ }
						switch op {
						case "cachecancel":
							allow("CLIENT", "CACHING", "YES")
							allow("MULTI")
							allow("PTTL", k1)
							allow("GET", k1)
							allow("EXEC")
							e.client.DoCache(cctx, b.Get().Key(k1).Cache(), time.Minute)
						case "mgetcancel":
							allow("CLIENT", "CACHING", "YES")
							allow("MULTI")
							allow("PTTL", k1)
							allow("PTTL", k2)
							allow("MGET", k1, k2)
							allow("EXEC")
							e.client.DoCache(cctx, b.Mget().Key(k1, k2).Cache(), time.Minute)
						case "mcachecancel":
							for _, k := range []string{k1, k2} {
								allow("CLIENT", "CACHING", "YES")
								allow("MULTI")
								allow("PTTL", k)
								allow("GET", k)
								allow("EXEC")
							}
							e.client.DoMultiCache(cctx, CT(b.Get().Key(k1).Cache(), time.Minute), CT(b.Get().Key(k2).Cache(), time.Minute))
						}
					case "dedicated-multi-retry", "multi-retry":
						// a read-only batch whose second member is answered LOADING once: the whole batch is sent again
						c1 := b.Get().Key("main." + t + ".first").Build()
						c2 := b.Get().Key("loading." + t).Build()
						c3 := b.Get().Key("main." + t + ".third").Build()
						note(c1, 2, 1)
						note(c2, 2, 2)
						note(c3, 2, 1)
						if op == "multi-retry" {
							for _, r := range e.client.DoMulti(bg, c1, c2, c3) {
								if err := r.Error(); err != nil && !IsRedisNil(err) {
									errs = append(errs, fmt.Sprintf("%s %s: %v", who, op, err))
								}
							}
						} else {
							e.client.Dedicated(func(dc DedicatedClient) error {
								for _, r := range dc.DoMulti(bg, c1, c2, c3) {
									if err := r.Error(); err != nil && !IsRedisNil(err) {
										errs = append(errs, fmt.Sprintf("%s %s: %v", who, op, err))
									}
								}
								return nil
							})
						}
					case "pin":
						cmd := b.Set().Key("main." + t).Value("value-of-" + t).PxMilliseconds(7).Build().Pin()
						note(cmd, 2, 1)
						e.client.Do(cctx, cmd)
						filler := b.Append().Key("fill." + t).Value("f").Build()
						note(filler, 1, 1)
						if err := e.client.Do(bg, filler).Error(); err != nil {
							errs = append(errs, fmt.Sprintf("%s pin filler: %v", who, err))
						}
						if err := e.client.Do(bg, cmd).Error(); err != nil {
							errs = append(errs, fmt.Sprintf("%s pin second use: %v", who, err))
						}
					}
					// reuse whatever was recycled, at once, with commands of other lengths
					n1 := b.Append().Key("next." + t).Value("x").Build()
					n2 := b.Lpush().Key("next."+t+".l").Element("p", "q", "r", "s-"+t).Build()
					note(n1, 1, 1)
					note(n2, 1, 1)
					if err := e.client.Do(bg, n1).Error(); err != nil {
						errs = append(errs, fmt.Sprintf("%s follow-up 1: %v", who, err))
					}
					if err := e.client.Do(bg, n2).Error(); err != nil {
						errs = append(errs, fmt.Sprintf("%s follow-up 2: %v", who, err))
					}
				}
			})
		}
		st := x.Run()
		if st != vsched.Quiescent {
			return
		}
		got := map[string]int{}
		var order []string
		for _, ss := range e.srv.Sessions {
			for _, argv := range ss.Received[skip[ss]:] {
				up := strings.ToUpper(argv[0])
				if up == "HELLO" || up == "CLIENT" || up == "PING" || up == "AUTH" || up == "SELECT" || strings.HasSuffix(up, "UNSUBSCRIBE") || up == "DISCARD" {
					continue // a dedicated connection's handshake and the clean-up before it returns to the pool
				}
				k := strings.Join(argv, "\x00")
				got[k]++
				order = append(order, strings.Join(argv, " "))
				if built[k] == 0 {
					x.Fail("server received a command no caller built", "received %q; commands built: %v; all received: %v", argv, c33rkeys(built), order)
				} else if got[k] > built[k] {
					x.Fail("server received a built command more often than it was sent", "received %q %d times (allowed %d); all received: %v", argv, got[k], built[k], order)
				}
			}
		}
		for k, n := range required {
			if got[k] < n {
				x.Fail("a command of a call that was not abandoned never arrived intact", "%q arrived %d times, expected %d; all received: %v; errors %v", strings.ReplaceAll(k, "\x00", " "), got[k], n, order, errs)
			}
		}
		if len(errs) > 0 && !lossy {
			x.Fail("a call that was not abandoned failed", "%v", errs)
		}
		x.Outcome = fmt.Sprintf("received=%d of built=%d", len(order), len(built))
	}
}

func c33rkeys(m map[string]int) []string {
	var out []string
	for k := range m {
		out = append(out, strings.ReplaceAll(k, "\x00", " "))
	}
	return out
}

func TestVerif_C33R(t *testing.T) {
	vrun.Main(t, "C33", func(r *vrun.Run) {
		r.Rule = "recycling half: 1-2 callers on a real single client over the simulated wire issue Do / DoMulti / Dedicated.Do / DoCache (GET, MGET) / DoMultiCache / a pinned command with a context that another thread cancels at any scheduling point (or a deadline firing while the reply is withheld), and after every operation at once build and send two more commands of other lengths (LIFO command pool: a command recycled too early is overwritten by the next Build); oracle: every command the fake server receives is byte-for-byte one the callers built, at most as often as it was sent, and every command of a call that was not abandoned arrives exactly once; non-trivial = schedule in which a thread blocked"
		cfgs := []c33rcfg{
			{name: "always/docancel", callers: [][]string{{"docancel"}}, always: true},
			{name: "always/docancel|do", callers: [][]string{{"docancel"}, {"do"}}, always: true},
			{name: "docancel|do", callers: [][]string{{"docancel"}, {"do"}}},
			{name: "flow/docancel|do", callers: [][]string{{"docancel"}, {"do"}}, flow: true, always: true},
			{name: "always/multicancel|do", callers: [][]string{{"multicancel"}, {"do"}}, always: true},
			{name: "always/multicancel|multi", callers: [][]string{{"multicancel"}, {"multi"}}, always: true},
			{name: "always/stall/docancel|do", callers: [][]string{{"docancel"}, {"do"}}, always: true, stall: true},
			{name: "always/stall/timeout,do", callers: [][]string{{"timeout", "do"}}, always: true, stall: true},
			{name: "stall/timeout|do", callers: [][]string{{"timeout"}, {"do"}}, stall: true},
			{name: "always/mgetcancel|do", callers: [][]string{{"mgetcancel"}, {"do"}}, always: true},
			{name: "always/cachecancel|do", callers: [][]string{{"cachecancel"}, {"do"}}, always: true},
			{name: "always/mcachecancel|do", callers: [][]string{{"mcachecancel"}, {"do"}}, always: true},
			{name: "mgetcancel|do", callers: [][]string{{"mgetcancel"}, {"do"}}},
			{name: "retry/dedicated-multi-retry|do", callers: [][]string{{"dedicated-multi-retry"}, {"do"}}, retry: true},
			{name: "retry/multi-retry|do", callers: [][]string{{"multi-retry"}, {"do"}}, retry: true},
			{name: "dedicated-cancel|do", callers: [][]string{{"dedicated-cancel"}, {"do"}}},
			{name: "always/pin|do", callers: [][]string{{"pin"}, {"do"}}, always: true},
		}
		for ci, c := range cfgs {
			vexp.Run(r, vexp.Prog{Name: c.name, Delay: 1, Budget: vsched.Budget{MaxPreempt: vrun.Pick(r, 2, 3)}, Opts: vsched.Options{Horizon: 20000, MaxVirtual: time.Minute}, Body: c33rbody(c), Seconds: r.Remaining() / float64(len(cfgs)-ci)})
		}
		r.Assume("single-client mode over the wire (client.go); the same PutCompleted-after-clean-reply rule in cluster.go/sentinel.go is not driven here")
		r.Assume("the simulated sync.Pool is a LIFO free list emptied per execution, so a recycled command is reused by the next Build in the same thread")
	})
}
