//go:build verif

package rueidis

import (
	"context"
	"fmt"
	"strings"
	"testing"

	"github.com/redis/rueidis/vshim/simnet"
	"github.com/redis/rueidis/vshim/simredis"
	"github.com/redis/rueidis/vshim/vexp"
	"github.com/redis/rueidis/vshim/vrun"
	"github.com/redis/rueidis/vshim/vsched"
)

// subs: each entry is one Receive call: "sub:ch1", "sub:ch1,ch2", "psub:c*", "ssub:ch1"
// end: unsub (another call unsubscribes the first Receive's subscription) | cancel | close | drop | sunsub (server drops the shard subscription)
type c26cfg struct {
	name  string
	subs  []string
	pubs  []string // "ch1:m1" ... published in order by an out-of-band client once every Receive is confirmed
	end   string
	doer  bool // a concurrent thread issues regular tagged commands
	resp2 bool
	early bool // environment deviation: a message for the first channel lands between the confirmations of a two-channel SUBSCRIBE
}

func c26match(kind string, targets []string, ch string) bool {
	for _, t := range targets {
		if kind == "psub" {
			if strings.HasSuffix(t, "*") && strings.HasPrefix(ch, strings.TrimSuffix(t, "*")) {
				return true
			}
		} else if t == ch {
			return true
		}
	}
	return false
}

func c26body(c c26cfg) func(x *vsched.Exec) {
	return func(x *vsched.Exec) {
		e := vwNew(func(o *ClientOption, srv *simredis.Server, n *simnet.Net) {
			if c.resp2 {
				o.AlwaysRESP2 = true
				o.DisableCache = true
			}
		})
		if e.err != nil {
			x.Fail("client setup failed", "%v", e.err)
			return
		}
		var published []string // "ch:msg" in server order
		if c.early {
			fired := false
			e.srv.BetweenPushes = func(ss *simredis.Session, kind, channel string) {
				if !fired && kind == "subscribe" {
					fired = true
					e.srv.Publish(channel, "m0", false)
					published = append(published, channel+":m0")
				}
			}
		}
		type rcv struct {
			kind    string
			targets []string
			got     []string
			err     error
			done    bool
		}
		var rs []*rcv
		ctx, cancel := context.WithCancel(context.Background())
		confirmed := func() bool { // every Receive's subscription reached the server
			n := 0
			for _, s := range e.srv.Sessions {
				n += len(s.Subs) + len(s.PSubs) + len(s.SSubs)
			}
			uniq := map[string]bool{}
			for _, r := range rs {
				for _, t := range r.targets {
					uniq[r.kind+":"+t] = true
				}
			}
			want := len(uniq)
			return n >= want && len(rs) == len(c.subs)
		}
		for i, s := range c.subs {
			i, s := i, s
			parts := strings.SplitN(s, ":", 2)
			r := &rcv{kind: parts[0], targets: strings.Split(parts[1], ",")}
			rs = append(rs, r)
			vsched.GoNamed(fmt.Sprintf("recv%d", i), func() {
				b := e.client.B()
				var cmd Completed
				switch r.kind {
				case "sub":
					cmd = b.Subscribe().Channel(r.targets...).Build()
				case "psub":
					cmd = b.Psubscribe().Pattern(r.targets...).Build()
				case "ssub":
					cmd = b.Ssubscribe().Channel(r.targets...).Build()
				}
				rctx := context.Background()
				if i == 0 && c.end == "cancel" {
					rctx = ctx
				}
				r.err = e.client.Receive(rctx, cmd, func(m PubSubMessage) {
					r.got = append(r.got, m.Channel+":"+m.Message)
				})
				r.done = true
			})
		}
		ended := false
		vsched.GoNamed("publisher", func() {
			vsched.Point("wait-confirm", confirmed)
			for _, p := range c.pubs {
				vsched.Point("publish", nil)
				if ended {
					return
				}
				kv := strings.SplitN(p, ":", 2)
				shard := false
				for _, r := range rs {
					if r.kind == "ssub" {
						shard = true
					}
				}
				e.srv.Publish(kv[0], kv[1], shard)
				published = append(published, p)
			}
		})
		var doerErr string
		if c.doer {
			vsched.GoNamed("doer", func() {
				for i := 0; i < 2; i++ {
					t := fmt.Sprintf("d%d", i)
					s, err := e.client.Do(context.Background(), e.client.B().Echo().Message(t).Build()).ToString()
					if err != nil {
						if c.end != "close" && c.end != "drop" {
							doerErr = fmt.Sprintf("%s failed: %v", t, err)
						}
					} else if s != t {
						doerErr = fmt.Sprintf("sent %q received %q", t, s)
					}
				}
			})
		}
		atEnd := -1 // number of publishes that had happened when the end event took effect
		vsched.GoNamed("ender", func() {
			vsched.Point("wait-confirm", confirmed)
			vsched.Point("end", nil)
			b := e.client.B()
			r0 := rs[0]
			switch c.end {
			case "unsub":
				var cmd Completed
				switch r0.kind {
				case "sub":
					cmd = b.Unsubscribe().Channel(r0.targets...).Build()
				case "psub":
					cmd = b.Punsubscribe().Pattern(r0.targets...).Build()
				case "ssub":
					cmd = b.Sunsubscribe().Channel(r0.targets...).Build()
				}
				// the unsubscription takes effect when the server executes it
				e.srv.AfterExec = func(s *simredis.Session, argv []string, _ simredis.Reply) {
					if strings.Contains(strings.ToUpper(argv[0]), "UNSUBSCRIBE") && atEnd < 0 {
						atEnd = len(published)
					}
				}
				e.client.Do(context.Background(), cmd)
			case "sunsub":
				for _, s := range e.srv.Sessions {
					if len(s.SSubs) > 0 {
						atEnd = len(published)
						e.srv.ServerUnsubscribe(s, r0.targets[0])
					}
				}
			case "cancel":
				atEnd = len(published)
				cancel()
			case "close":
				atEnd = len(published)
				ended = true
				e.client.Close()
			case "drop":
				atEnd = len(published)
				ended = true
				for _, cn := range e.net.Conns {
					cn.ServerDrop()
				}
			}
		})
		st := x.Run()
		if st == vsched.Deadlock {
			// Receives other than the first one legitimately keep waiting when only the first subscription ended
			for i, r := range rs {
				if !r.done && (i == 0 || c.end == "close" || c.end == "drop") {
					return // reported by vexp as a deadlock
				}
			}
			x.SetData("allow", "deadlock")
		} else if st != vsched.Quiescent {
			return
		}
		if atEnd < 0 {
			atEnd = len(published)
		}
		var out []string
		for i, r := range rs {
			out = append(out, fmt.Sprintf("recv%d(%s)=%v/%s", i, strings.Join(r.targets, ","), r.got, vwErrStr(r.err)))
			// expected: every message published to a matching channel, in order; for the first Receive only those before the end
			var want, all []string
			for pi, p := range published {
				ch := strings.SplitN(p, ":", 2)[0]
				if c26match(r.kind, r.targets, ch) {
					all = append(all, p)
					if i != 0 || pi < atEnd || c.end == "close" || c.end == "drop" {
						want = append(want, p)
					}
				}
			}
			exact := i == 0 && (c.end == "unsub" || c.end == "sunsub")
			if !r.done {
				exact = true
				want = all
			}
			if exact {
				if strings.Join(r.got, " ") != strings.Join(want, " ") {
					x.Fail("Receive did not deliver exactly the messages of its subscription in order", "recv%d %s %v delivered %v, the server published %v to it before the subscription ended (all publishes %v, end after %d)", i, r.kind, r.targets, r.got, want, published, atEnd)
				}
			} else {
				// cancellation / close / drop race with delivery: an in-order duplicate-free prefix-closed subsequence is required
				j := 0
				for _, g := range r.got {
					for j < len(all) && all[j] != g {
						j++
					}
					if j == len(all) {
						x.Fail("Receive delivered a message it was not owed, out of order or twice", "recv%d %v delivered %v, matching publishes in order %v", i, r.targets, r.got, all)
						break
					}
					j++
				}
			}
			if r.done && i == 0 {
				switch c.end {
				case "unsub", "sunsub":
					if r.err != nil {
						x.Fail("Receive did not return nil on unsubscribe", "got %v", r.err)
					}
				case "cancel":
					if r.err != context.Canceled {
						x.Fail("Receive did not return the context error", "got %v", r.err)
					}
				case "close":
					if r.err != ErrClosing {
						x.Fail("Receive did not return ErrClosing on Close", "got %v", r.err)
					}
				case "drop":
					if r.err == nil {
						x.Fail("Receive returned nil although the connection was lost", "")
					}
				}
			}
		}
		if doerErr != "" {
			x.Fail("regular command on the subscribed connection got a wrong reply", "%s", doerErr)
		}
		x.Outcome = strings.Join(out, " ")
	}
}

// c26backlog: a slow consumer. The callback of the first message blocks until the ender has cancelled the context;
// meanwhile 19 more messages arrive: 16 fill the subscription's buffer and the connection's reader waits with the next
// one. Receive must return the context error, the delivered messages must be an in-order prefix, and the connection
// must keep serving regular commands afterwards.
func c26backlog(resp2 bool) func(x *vsched.Exec) {
	return func(x *vsched.Exec) {
		e := vwNew(func(o *ClientOption, srv *simredis.Server, n *simnet.Net) {
			if resp2 {
				o.AlwaysRESP2 = true
				o.DisableCache = true
			}
		})
		if e.err != nil {
			x.Fail("client setup failed", "%v", e.err)
			return
		}
		ctx, cancel := context.WithCancel(context.Background())
		var got []string
		var recvErr error
		released, recvDone, pubDone := false, false, false
		const total = 20
		vsched.GoNamed("recv", func() {
			recvErr = e.client.Receive(ctx, e.client.B().Subscribe().Channel("ch1").Build(), func(m PubSubMessage) {
				got = append(got, m.Message)
				if len(got) == 1 {
					vsched.Point("slow-consumer", func() bool { return released })
				}
			})
			recvDone = true
		})
		vsched.GoNamed("publisher", func() {
			vsched.Point("wait-confirm", func() bool {
				for _, s := range e.srv.Sessions {
					if len(s.Subs) > 0 {
						return true
					}
				}
				return false
			})
			for i := 1; i <= total; i++ {
				e.srv.Publish("ch1", fmt.Sprintf("m%02d", i), false)
			}
			pubDone = true
		})
		vsched.GoNamed("ender", func() {
			vsched.Point("wait-published", func() bool { return pubDone && len(got) > 0 })
			vsched.Point("end", nil)
			cancel()
			released = true
		})
		var after string
		var afterErr error
		vsched.GoNamed("after", func() {
			vsched.Point("wait-receive", func() bool { return recvDone })
			after, afterErr = e.client.Do(context.Background(), e.client.B().Echo().Message("after").Build()).ToString()
		})
		if x.Run() != vsched.Quiescent {
			return // a deadlock is reported by the explorer
		}
		if recvErr != context.Canceled {
			x.Fail("Receive did not return the context error", "got %v after %d messages", recvErr, len(got))
		}
		for i, g := range got {
			if g != fmt.Sprintf("m%02d", i+1) {
				x.Fail("Receive delivered a message it was not owed, out of order or twice", "delivered %v", got)
				break
			}
		}
		if afterErr != nil || after != "after" {
			x.Fail("regular command on the subscribed connection got a wrong reply", "ECHO after -> %q, %v", after, afterErr)
		}
		x.Outcome = fmt.Sprintf("delivered=%d err=%s", len(got), vwErrStr(recvErr))
	}
}

// c26overlap: three Receives of the same kind on one connection with overlapping lifetimes. A (channel a) ends while
// B (channel b) is still running; then C (channel c) starts; then b is unsubscribed. B must return nil, C must keep
// receiving until its own channel is unsubscribed.
func c26overlap(resp2 bool) func(x *vsched.Exec) {
	return func(x *vsched.Exec) {
		e := vwNew(func(o *ClientOption, srv *simredis.Server, n *simnet.Net) {
			if resp2 {
				o.AlwaysRESP2 = true
				o.DisableCache = true
			}
		})
		if e.err != nil {
			x.Fail("client setup failed", "%v", e.err)
			return
		}
		type rcv struct {
			got  []string
			err  error
			done bool
		}
		rs := map[string]*rcv{"a": {}, "b": {}, "c": {}}
		ctx := context.Background()
		start := func(ch string) {
			r := rs[ch]
			vsched.GoNamed("recv-"+ch, func() {
				r.err = e.client.Receive(ctx, e.client.B().Subscribe().Channel(ch).Build(), func(m PubSubMessage) {
					r.got = append(r.got, m.Channel+":"+m.Message)
				})
				r.done = true
			})
		}
		subscribed := func(ch string) bool {
			for _, s := range e.srv.Sessions {
				for _, sc := range s.Subs {
					if sc == ch {
						return true
					}
				}
			}
			return false
		}
		unsub := func(ch string) {
			e.client.Do(ctx, e.client.B().Unsubscribe().Channel(ch).Build())
		}
		start("a")
		start("b")
		vsched.GoNamed("driver", func() {
			vsched.Point("wait-ab", func() bool { return subscribed("a") && subscribed("b") })
			unsub("a")
			vsched.Point("wait-a-done", func() bool { return rs["a"].done })
			start("c")
			vsched.Point("wait-c", func() bool { return subscribed("c") })
			e.srv.Publish("c", "c1", false)
			e.srv.Publish("b", "b1", false)
			unsub("b")
			vsched.Point("wait-b-done", func() bool { return rs["b"].done })
			e.srv.Publish("c", "c2", false)
			unsub("c")
		})
		if x.Run() != vsched.Quiescent {
			return // a Receive that never returns shows up as a deadlock
		}
		for _, ch := range []string{"a", "b", "c"} {
			r := rs[ch]
			if !r.done || r.err != nil {
				x.Fail("Receive did not return nil on unsubscribe", "Receive(%s): done=%v err=%v", ch, r.done, r.err)
			}
		}
		if strings.Join(rs["c"].got, " ") != "c:c1 c:c2" || strings.Join(rs["b"].got, " ") != "b:b1" || len(rs["a"].got) != 0 {
			x.Fail("Receive did not deliver exactly the messages of its subscription in order", "a got %v (want none), b got %v (want b1), c got %v (want c1 c2)", rs["a"].got, rs["b"].got, rs["c"].got)
		}
		x.Outcome = fmt.Sprintf("a=%v b=%v c=%v", rs["a"].got, rs["b"].got, rs["c"].got)
	}
}

func TestVerif_C26(t *testing.T) {
	vrun.Main(t, "C26", func(r *vrun.Run) {
		r.Rule = "1-2 Receive calls (channels, patterns, shard channels, overlapping) on a real client, an out-of-band publisher sending 3-4 messages on 2 channels once the subscriptions are confirmed, an ender (UNSUBSCRIBE through another call, server-initiated sunsubscribe, context cancel, Close, connection drop) and optionally a thread issuing tagged regular commands; RESP3 and RESP2; plus three Receives with overlapping lifetimes (A ends while B runs, then C starts, then B's channel is unsubscribed); plus a slow consumer (callback blocked while 20 messages arrive: the 16-slot buffer fills and the reader waits) whose context is then cancelled, followed by a regular command; all schedules within the preemption/delay bound; oracle: callback log = server publish log filtered to the subscription up to its end, in order, no duplicates; return value per end kind"
		pubs := []string{"ch1:m1", "ch2:x1", "ch1:m2", "ch1:m3"}
		cfgs := []c26cfg{
			{name: "sub/unsub", subs: []string{"sub:ch1"}, pubs: pubs, end: "unsub"},
			{name: "sub/cancel", subs: []string{"sub:ch1"}, pubs: pubs, end: "cancel"},
			{name: "sub/close", subs: []string{"sub:ch1"}, pubs: pubs[:3], end: "close"},
			{name: "sub/drop", subs: []string{"sub:ch1"}, pubs: pubs[:3], end: "drop"},
			{name: "sub+doer/unsub", subs: []string{"sub:ch1"}, pubs: pubs[:3], end: "unsub", doer: true},
			{name: "psub/unsub", subs: []string{"psub:c*"}, pubs: pubs[:3], end: "unsub"},
			{name: "ssub/sunsub", subs: []string{"ssub:ch1"}, pubs: pubs[:3], end: "sunsub"},
			{name: "sub|sub2/unsub", subs: []string{"sub:ch1", "sub:ch1,ch2"}, pubs: pubs[:3], end: "unsub"},
			{name: "early/sub2ch+doer/unsub", subs: []string{"sub:ch1,ch2"}, pubs: pubs[:3], end: "unsub", doer: true, early: true},
			{name: "early/sub2ch|sub/cancel", subs: []string{"sub:ch1,ch2", "sub:ch3"}, pubs: pubs[:2], end: "cancel", early: true},
			{name: "resp2/early/sub2ch+doer/unsub", subs: []string{"sub:ch1,ch2"}, pubs: pubs[:3], end: "unsub", doer: true, early: true, resp2: true},
			{name: "resp2/sub/unsub", subs: []string{"sub:ch1"}, pubs: pubs[:3], end: "unsub", resp2: true},
			{name: "resp2/sub+doer/cancel", subs: []string{"sub:ch1"}, pubs: pubs[:3], end: "cancel", resp2: true, doer: true},
		}
		for ci, c := range cfgs {
			vexp.Run(r, vexp.Prog{Name: c.name, Delay: 1, Budget: vsched.Budget{MaxPreempt: vrun.Pick(r, 1, 2)}, Opts: vsched.Options{Horizon: 20000}, Body: c26body(c), Seconds: r.Remaining() / float64(len(cfgs)-ci)})
		}
		for _, resp2 := range []bool{false, true} {
			name := "overlap/subA,subB;unsubA;subC;unsubB;unsubC"
			if resp2 {
				name = "resp2/" + name
			}
			vexp.Run(r, vexp.Prog{Name: name, Delay: 1, Budget: vsched.Budget{MaxPreempt: 1}, Opts: vsched.Options{Horizon: 40000}, Body: c26overlap(resp2), Seconds: vrun.Pick(r, 10.0, 60.0)})
		}
		for _, resp2 := range []bool{false, true} {
			name := "backlog/slow-consumer/cancel"
			if resp2 {
				name = "resp2/" + name
			}
			vexp.Run(r, vexp.Prog{Name: name, Delay: 1, Budget: vsched.Budget{MaxPreempt: 1}, Opts: vsched.Options{Horizon: 40000}, Body: c26backlog(resp2), Seconds: vrun.Pick(r, 10.0, 60.0)})
		}
		r.Assume("messages are owed from the moment the server has registered the subscription; fake server pushes message/pmessage/smessage frames in publish order")
	})
}
