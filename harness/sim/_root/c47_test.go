//go:build verif

package rueidis

import (
	"context"
	"fmt"
	"net"
	"strings"
	"testing"
	"time"

	"github.com/redis/rueidis/internal/cmds"
	"github.com/redis/rueidis/vshim/simnet"
	"github.com/redis/rueidis/vshim/simredis"
	"github.com/redis/rueidis/vshim/vexp"
	"github.com/redis/rueidis/vshim/vrun"
	"github.com/redis/rueidis/vshim/vsched"
)

type c47cfg struct {
	auth     string // none | pw | userpw | fn
	name     string
	db       int
	tracking string // optin | optout | bcast | off
	replica  bool
	notouch  bool
	noevict  bool
	setinfo  string // default | custom | disabled
	resp2    bool   // AlwaysRESP2
	server   string // resp3 | nohello | nohello3
	push     bool   // environment: an invalidation push frame arrives among the replies of the setup batch (RESP3 route only)
	fail     string // setup command made to fail with an error reply ("" = none): e.g. "SELECT", "CLIENT TRACKING", "READONLY", "CLIENT SETINFO", "CLIENT NO-TOUCH", "CLIENT NO-EVICT", "CLIENT SETNAME", "AUTH"
}

func (c c47cfg) String() string {
	s := fmt.Sprintf("auth=%s name=%q db=%d trk=%s ro=%v nt=%v ne=%v info=%s resp2=%v srv=%s fail=%q", c.auth, c.name, c.db, c.tracking, c.replica, c.notouch, c.noevict, c.setinfo, c.resp2, c.server, c.fail)
	if c.push {
		s += " push-during-setup"
	}
	return s
}

func c47body(c c47cfg) func(x *vsched.Exec) {
	return func(x *vsched.Exec) {
		srv := simredis.New()
		n := simnet.New(srv)
		opt := vwOption(n)
		o := &opt
		o.ForceSingleClient = false
		o.ReadBufferEachConn, o.WriteBufferEachConn, o.CacheSizeEachConn = DefaultReadBuffer, DefaultWriteBuffer, DefaultCacheBytes
		o.Dialer.Timeout = DefaultDialTimeout
		o.ConnWriteTimeout = 10 * time.Second
		{
			switch c.auth {
			case "pw":
				o.Password = "pw"
				srv.Users["default"] = "pw"
			case "userpw":
				o.Username, o.Password = "u", "pw"
				srv.Users["u"] = "pw"
			case "fn":
				o.AuthCredentialsFn = func(AuthCredentialsContext) (AuthCredentials, error) {
					return AuthCredentials{Username: "fu", Password: "fp"}, nil
				}
				srv.Users["fu"] = "fp"
			case "fnpw":
				// dynamic credentials with a password only (default user); the static Password stays empty
				o.AuthCredentialsFn = func(AuthCredentialsContext) (AuthCredentials, error) {
					return AuthCredentials{Password: "dp"}, nil
				}
				srv.Users["default"] = "dp"
			}
			o.ClientName = c.name
			o.SelectDB = c.db
			switch c.tracking {
			case "optout":
				o.ClientTrackingOptions = []string{"OPTOUT"}
			case "bcast":
				o.ClientTrackingOptions = []string{"BCAST", "PREFIX", "p:"}
			case "off":
				o.DisableCache = true
			}
			o.ReplicaOnly = c.replica
			o.ClientNoTouch = c.notouch
			o.ClientNoEvict = c.noevict
			switch c.setinfo {
			case "custom":
				o.ClientSetInfo = []string{"mylib", "9.9"}
			case "disabled":
				o.ClientSetInfo = []string{}
			}
			o.AlwaysRESP2 = c.resp2
			switch c.server {
			case "nohello":
				srv.RejectHello = true
			case "nohello3":
				srv.RejectHello3 = true
			}
			if c.fail != "" {
				srv.FailCmd[c.fail] = "ERR injected failure of " + c.fail
			}
			if c.push {
				// another client's write is announced while the setup batch is being answered: the push frame sits between
				// the replies of the first and the second setup command after HELLO
				n := 0
				srv.Hook = func(ss *simredis.Session, argv []string) *simredis.Reply {
					if ss.V3 && strings.ToUpper(argv[0]) != "HELLO" && strings.ToUpper(argv[0]) != "ECHO" {
						if n++; n == 2 {
							ss.Out([]byte(">2\r\n$10\r\ninvalidate\r\n*1\r\n$5\r\np:key\r\n"))
						}
					}
					return nil
				}
			}
		}
		e := &vwEnv{srv: srv, net: n}
		tag := "user-command"
		var userErr error
		vsched.GoNamed("user", func() {
			// the connection level constructor is what NewClient / the pools call for every new connection
			p, err := newPipe(context.Background(), func(ctx context.Context) (net.Conn, error) { return n.Dial() }, o)
			e.err = err
			if err != nil {
				return
			}
			userErr = p.Do(context.Background(), cmds.NewCompleted([]string{"ECHO", tag})).Error()
		})
		if x.Run() != vsched.Quiescent {
			return
		}
		// which session served the user command?
		var sess *simredis.Session
		for _, s := range e.srv.Sessions {
			for _, a := range s.Executed {
				if len(a) == 2 && a[1] == tag {
					sess = s
				}
			}
		}
		x.Outcome = fmt.Sprintf("newclient=%s user=%s served=%v", vwErrStr(e.err), vwErrStr(userErr), sess != nil)
		// ---- expected outcome of the setup
		fallback := c.server == "nohello" || c.server == "nohello3" // HELLO (3) is rejected: RESP2 is the only way
		r2 := c.resp2 || fallback
		mustFail := ""
		if r2 && c.tracking != "off" {
			mustFail = "client-side caching needs RESP3"
		}
		sent := func(cmd string) bool { // is this setup command part of the handshake of this configuration?
			switch cmd {
			case "AUTH":
				return c.auth != "none" && r2
			case "SELECT":
				return c.db != 0
			case "CLIENT TRACKING":
				return c.tracking != "off" && !r2
			case "READONLY":
				return c.replica
			case "CLIENT NO-TOUCH":
				return c.notouch
			case "CLIENT NO-EVICT":
				return c.noevict
			case "CLIENT SETINFO":
				return c.setinfo != "disabled"
			case "CLIENT SETNAME":
				return c.name != "" && r2
			}
			return false
		}
		tolerated := c.fail == "READONLY" || c.fail == "CLIENT SETINFO"
		if c.fail != "" && sent(c.fail) && !tolerated && mustFail == "" {
			mustFail = "setup step " + c.fail + " failed"
		}
		if c.server == "nohello3" && e.err != nil {
			return // a server that knows HELLO but refuses protocol 3 (NOPROTO) is not the "rejects HELLO" case: failing the connection is acceptable
		}
		if mustFail != "" {
			if e.err == nil && sess != nil {
				x.Fail("a user command was served on a connection whose setup failed", "%s: expected the connection to fail (%s) but the user command was executed; session user=%q name=%q db=%d", c, mustFail, sess.User, sess.Name, sess.DB)
			}
			return
		}
		if e.err != nil || userErr != nil || sess == nil {
			x.Fail("connection setup failed although every step should succeed", "%s: NewClient err %v, user err %v, served %v", c, e.err, userErr, sess != nil)
			return
		}
		// ---- session state when the user command ran (state is monotone during setup, so the final state equals it)
		bad := func(what string, got, want any) {
			x.Fail("session setting not applied before the first user command: "+what, "%s: %s = %v, want %v", c, what, got, want)
		}
		wantUser := map[string]string{"none": "default", "pw": "default", "userpw": "u", "fn": "fu", "fnpw": "default"}[c.auth]
		if sess.User != wantUser || (c.auth != "none" && !sess.Authed) {
			bad("authenticated user", sess.User, wantUser)
		}
		if sess.Name != c.name {
			bad("client name", sess.Name, c.name)
		}
		if sess.DB != c.db {
			bad("database", sess.DB, c.db)
		}
		if sess.V3 == r2 {
			bad("protocol RESP3", sess.V3, !r2)
		}
		if !c.resp2 && !fallback && !sess.V3 {
			x.Fail("fell back to RESP2 although the server accepts HELLO 3", "%s", c)
		}
		if c.tracking != "off" {
			if !e.srv.TrackingOf(sess, c.tracking) {
				bad("tracking mode", e.srv.DescribeTracking(sess), c.tracking)
			}
		} else if e.srv.DescribeTracking(sess) != "off" {
			bad("tracking mode", e.srv.DescribeTracking(sess), "off")
		}
		if sess.ReadOnly != (c.replica && c.fail != "READONLY") {
			bad("READONLY", sess.ReadOnly, c.replica)
		}
		if sess.NoTouch != c.notouch {
			bad("NO-TOUCH", sess.NoTouch, c.notouch)
		}
		if sess.NoEvict != c.noevict {
			bad("NO-EVICT", sess.NoEvict, c.noevict)
		}
		wantLib := map[string][2]string{"default": {LibName, LibVer}, "custom": {"mylib", "9.9"}, "disabled": {"", ""}}[c.setinfo]
		if c.fail == "CLIENT SETINFO" {
			wantLib = [2]string{"", ""}
		}
		if sess.LibName != wantLib[0] || sess.LibVer != wantLib[1] {
			bad("library info", [2]string{sess.LibName, sess.LibVer}, wantLib)
		}
		// every setup command precedes the user command on that connection
		seenUser := false
		for _, a := range sess.Received {
			if len(a) == 2 && a[1] == tag {
				seenUser = true
			} else if seenUser && strings.ToUpper(a[0]) != "PING" {
				x.Fail("a setup command was sent after the first user command", "%s: %v", c, a)
			}
		}
	}
}

func TestVerif_C47(t *testing.T) {
	vrun.Main(t, "C47", func(r *vrun.Run) {
		r.Rule = "full product of credentials {none, password, user+password, AuthCredentialsFn with user+password, AuthCredentialsFn with a password only} x ClientName x SelectDB x tracking {OPTIN default, OPTOUT, BCAST+PREFIX, DisableCache} x ReplicaOnly x ClientNoTouch x ClientNoEvict x ClientSetInfo {default, custom, disabled} x AlwaysRESP2 x server {RESP3, rejects HELLO, rejects HELLO 3}; plus each setup command failing with an error reply; plus an invalidation push frame arriving among the replies of the setup batch (RESP3 route, with and without a failing step); one deterministic execution each (NewClient handshake + one user command) against the fake server, whose per-connection session state is the oracle"
		var cfgs []c47cfg
		for _, server := range []string{"resp3", "nohello", "nohello3"} {
			for _, auth := range []string{"none", "pw", "userpw", "fn", "fnpw"} {
				for _, name := range []string{"", "cn"} {
					for _, db := range []int{0, 3} {
						for _, trk := range []string{"optin", "optout", "bcast", "off"} {
							for _, ro := range []bool{false, true} {
								for _, nt := range []bool{false, true} {
									for _, ne := range []bool{false, true} {
										for _, info := range []string{"default", "custom", "disabled"} {
											for _, r2 := range []bool{false, true} {
												if server == "nohello" && (nt || ne) {
													continue // a server old enough to lack HELLO has no CLIENT NO-TOUCH / NO-EVICT either
												}
												base := c47cfg{auth: auth, name: name, db: db, tracking: trk, replica: ro, notouch: nt, noevict: ne, setinfo: info, resp2: r2, server: server}
												cfgs = append(cfgs, base)
											}
										}
									}
								}
							}
						}
					}
				}
			}
		}
		// failing setup steps: on the configurations that send every optional command
		fails := []string{"SELECT", "CLIENT TRACKING", "READONLY", "CLIENT NO-TOUCH", "CLIENT NO-EVICT", "CLIENT SETINFO", "CLIENT SETNAME", "AUTH"}
		nbase := len(cfgs)
		for i := 0; i < nbase; i++ {
			b := cfgs[i]
			full := b.db != 0 && b.replica && b.notouch && b.noevict && b.name != "" && b.setinfo != "disabled"
			if !full && r.Quick() {
				continue
			}
			if !full && (i%7 != 0) {
				continue
			}
			for _, f := range fails {
				c := b
				c.fail = f
				cfgs = append(cfgs, c)
			}
		}
		// a push frame among the setup replies: on the RESP3 route of every configuration that sends every optional command,
		// without and with each failing step
		nall := len(cfgs)
		for i := 0; i < nall; i++ {
			b := cfgs[i]
			if b.server != "resp3" || b.resp2 || b.tracking == "off" {
				continue
			}
			if !(b.db != 0 && b.replica && b.notouch && b.noevict && b.name != "" && b.setinfo != "disabled") {
				continue
			}
			c := b
			c.push = true
			cfgs = append(cfgs, c)
		}
		for ci, c := range cfgs {
			if !r.Mine(ci) {
				continue
			}
			if r.TimeUp() {
				break
			}
			vexp.Run(r, vexp.Prog{Name: c.String(), NoShard: true, Delay: -1, Budget: vsched.Budget{MaxPreempt: 0}, Opts: vsched.Options{Horizon: 30000}, Body: c47body(c)})
		}
		delete(r.Bounds, "programs")
		r.Bounds["cases"] = len(cfgs)
		r.Assume("the fake server applies HELLO/AUTH/SELECT/CLIENT */READONLY like Redis 7 and records the session state; EnableRedirect, sentinel credentials and TLS are not covered")
	})
}
