//go:build verif

package rueidis

import (
	"context"
	"fmt"
	"strings"
	"testing"
	"time"

	"github.com/redis/rueidis/vshim/simnet"
	"github.com/redis/rueidis/vshim/simredis"
	"github.com/redis/rueidis/vshim/vexp"
	"github.com/redis/rueidis/vshim/vrun"
	"github.com/redis/rueidis/vshim/vsched"
)

type c11cfg struct {
	api   string            // multi (DoMultiCache of GETs) | mget (DoCache MGET) | helper (MGetCache)
	wires int               // 1 or 2 multiplexed connections
	batch []string          // keys, duplicates allowed
	pre   map[string]string // key -> hit | miss | pending
	store string            // lru | adapter
}

func (c c11cfg) name() string {
	var ps []string
	for _, k := range []string{"a", "b", "c"} {
		if p, ok := c.pre[k]; ok {
			ps = append(ps, k+"="+p)
		}
	}
	return fmt.Sprintf("%s/%s/w%d/%s/%s", c.api, c.store, c.wires, strings.Join(c.batch, ""), strings.Join(ps, ","))
}

func c11body(c c11cfg) func(x *vsched.Exec) {
	return func(x *vsched.Exec) {
		stallKey := ""
		abortNext := false
		var abortedTxn []string
		e := vwNew(func(o *ClientOption, srv *simredis.Server, n *simnet.Net) {
			for _, k := range []string{"a", "b", "c"} {
				srv.Do("SET", k, "v"+k)
			}
			// pendfail: the server aborts the caching transaction of the parked flight (EXEC answers nil), so the flight
			// others wait on ends with an error and nothing is cached
			srv.Hook = func(ss *simredis.Session, argv []string) *simredis.Reply {
				if strings.ToUpper(argv[0]) == "EXEC" && abortNext {
					abortNext = false
					if n := len(ss.Received); n >= 2 {
						abortedTxn = append(abortedTxn, strings.Join(ss.Received[n-2], " "))
					}
					srv.AbortTxn(ss)
					r := simredis.NilArr()
					return &r
				}
				return nil
			}
			if c.wires == 2 {
				o.PipelineMultiplex = 1
			}
			if c.store == "adapter" {
				o.NewCacheStoreFn = func(CacheStoreOption) CacheStore {
					return NewSimpleCacheAdapter(&c06map{m: map[string]RedisMessage{}})
				}
			}
			// the reply of the pending key's own flight is withheld for 10ms of virtual time
			armed := map[*simnet.Conn]bool{}
			n.Script = func(cn *simnet.Conn, argv []string) int {
				up := strings.ToUpper(argv[0])
				if stallKey != "" && up == "GET" && len(argv) == 2 && argv[1] == stallKey {
					armed[cn] = true
				}
				if up == "EXEC" && armed[cn] {
					armed[cn] = false
					stallKey = ""
					vsched.AddTimer(10*time.Millisecond, func() { cn.Release() })
					return simnet.FaultStall
				}
				return simnet.FaultNone
			}
		})
		if e.err != nil {
			x.Fail("client setup failed", "%v", e.err)
			return
		}
		ctx := context.Background()
		ttl := time.Hour
		var got []string
		var hits []bool
		var callErr error
		pendingStarted := 0
		npending := 0
		for _, k := range []string{"a", "b", "c"} {
			if c.pre[k] == "pending" || c.pre[k] == "pendfail" {
				npending++
			}
		}
		vsched.GoNamed("caller", func() {
			b := e.client.B()
			// warm the keys that must be hits
			for _, k := range []string{"a", "b", "c"} {
				if c.pre[k] == "hit" {
					e.client.DoCache(ctx, b.Get().Key(k).Cache(), ttl)
				}
			}
			// park one concurrent flight per pending key (its reply is withheld for a while)
			for _, k := range []string{"a", "b", "c"} {
				if c.pre[k] == "pending" || c.pre[k] == "pendfail" {
					k := k
					stallKey = k
					abortNext = c.pre[k] == "pendfail"
					vsched.GoDaemon("flight-"+k, func() {
						e.client.DoCache(ctx, b.Get().Key(k).Cache(), ttl)
					})
					vsched.Point("wait-flight", func() bool { return stallKey == "" })
					pendingStarted++
				}
			}
			switch c.api {
			case "multi":
				cts := make([]CacheableTTL, len(c.batch))
				for i, k := range c.batch {
					cts[i] = CT(b.Get().Key(k).Cache(), ttl)
				}
				for i, r := range e.client.DoMultiCache(ctx, cts...) {
					s, err := r.ToString()
					if err != nil && c.pre[c.batch[i]] == "pendfail" {
						s = "<err>" // the error of this position's own (failing) read
					} else if err != nil {
						callErr = err
					}
					got = append(got, s)
					hits = append(hits, r.IsCacheHit())
				}
			case "mget":
				arr, err := e.client.DoCache(ctx, b.Mget().Key(c.batch...).Cache(), ttl).ToArray()
				callErr = err
				for i := range arr {
					s, _ := arr[i].ToString()
					got = append(got, s)
					hits = append(hits, arr[i].IsCacheHit())
				}
			case "helper":
				m, err := MGetCache(e.client, ctx, ttl, c.batch)
				callErr = err
				for _, k := range c.batch {
					mk, ok := m[k]
					if !ok {
						got = append(got, "<missing>")
						hits = append(hits, false)
						continue
					}
					s, _ := mk.ToString()
					got = append(got, s)
					hits = append(hits, mk.IsCacheHit())
				}
				if err == nil {
					distinct := map[string]bool{}
					for _, k := range c.batch {
						distinct[k] = true
					}
					if len(m) != len(distinct) {
						x.Fail("helper map has the wrong key set", "keys %v result %v", c.batch, m)
					}
				}
			}
		})
		if x.Run() != vsched.Quiescent {
			return
		}
		x.Outcome = fmt.Sprintf("%v hits=%v err=%v", got, hits, callErr)
		if callErr != nil {
			x.Fail("batched cache read failed", "%s: %v", c.name(), callErr)
			return
		}
		if len(got) != len(c.batch) {
			x.Fail("batched cache read returned the wrong number of results", "%s: keys %v results %v", c.name(), c.batch, got)
			return
		}
		for i, k := range c.batch {
			if c.pre[k] == "pendfail" {
				// the flight this position waits on is aborted by the server: the position reports that error, or - when the
				// aborted flight had already ended before the batch looked (nothing is cached then) - the value the batch
				// fetched itself
				if got[i] != "<err>" && got[i] != "v"+k {
					x.Fail("result at a position is not the reply for that position's key", "%s: keys %v results %v (position %d holds %q, the flight it waited on was aborted by the server); pre-state %v; aborted transactions %v; server log %v", c.name(), c.batch, got, i, got[i], c.pre, abortedTxn, c11log(e.srv))
				}
				continue
			}
			if got[i] != "v"+k {
				x.Fail("result at a position is not the reply for that position's key", "%s: keys %v results %v (position %d holds %q, want %q); pre-state %v", c.name(), c.batch, got, i, got[i], "v"+k, c.pre)
			}
		}
	}
}

func c11log(srv *simredis.Server) []string {
	var out []string
	for _, ss := range srv.Sessions {
		for _, a := range ss.Received {
			if up := strings.ToUpper(a[0]); up == "HELLO" || up == "CLIENT" && len(a) > 1 && strings.ToUpper(a[1]) != "CACHING" {
				continue
			}
			out = append(out, fmt.Sprintf("s%d:%s", ss.ID, strings.Join(a, " ")))
		}
	}
	return out
}

func TestVerif_C11(t *testing.T) {
	vrun.Main(t, "C11", func(r *vrun.Run) {
		r.Rule = "every key batch of length <=3 (thorough <=4) over keys {a,b,c} incl. duplicates x every assignment of a pre-state {already cached, miss, in flight from a parked concurrent call whose reply is withheld} to the keys x API {DoMultiCache, DoCache(MGET), MGetCache helper} x {1 connection, 2 multiplexed connections} x {lru, adapter store}; one deterministic execution each; oracle: position i / map entry k holds the value of key i / k; non-trivial = batch mixing at least two pre-states"
		maxLen := vrun.Pick(r, 3, 5)
		keys := []string{"a", "b", "c"}
		var batches [][]string
		var gen func(cur []string)
		gen = func(cur []string) {
			if len(cur) > 0 {
				batches = append(batches, append([]string{}, cur...))
			}
			if len(cur) == maxLen {
				return
			}
			for _, k := range keys {
				gen(append(cur, k))
			}
		}
		gen(nil)
		n := 0
		for _, api := range []string{"multi", "mget", "helper"} {
			for _, wires := range []int{1, 2} {
				for _, store := range []string{"lru", "adapter"} {
					if store == "adapter" && (wires == 2 || r.Quick() && api == "helper") {
						continue
					}
					for _, batch := range batches {
						used := map[string]bool{}
						var uk []string
						for _, k := range batch {
							if !used[k] {
								used[k] = true
								uk = append(uk, k)
							}
						}
						states := []string{"hit", "miss", "pending"}
						if api == "multi" {
							states = append(states, "pendfail") // a flight that ends with an error (per-position errors exist only in DoMultiCache)
						}
						total := 1
						for range uk {
							total *= len(states)
						}
						for code := 0; code < total; code++ {
							pre := map[string]string{}
							cc := code
							for _, k := range uk {
								pre[k] = states[cc%len(states)]
								cc /= len(states)
							}
							n++
							if !r.Mine(n) {
								continue
							}
							if r.TimeUp() {
								return
							}
							c := c11cfg{api: api, wires: wires, batch: batch, pre: pre, store: store}
							vexp.Run(r, vexp.Prog{Name: c.name(), NoShard: true, Delay: -1, Budget: vsched.Budget{MaxPreempt: 0}, Opts: vsched.Options{Horizon: 30000}, Body: c11body(c)})
						}
					}
				}
			}
		}
		delete(r.Bounds, "programs")
		r.Bounds["cases"] = n
		r.Bounds["max_batch_len"] = maxLen
		r.Assume("single deterministic schedule per case (schedule exploration of cached reads is C06/C09); cluster clients are covered at the routing seam (C20/C31)")
	})
}
