//go:build verif

package rueidis

import (
	"context"
	"fmt"
	"strings"
	"testing"
	"time"

	"github.com/redis/rueidis/vshim/simnet"
	"github.com/redis/rueidis/vshim/simredis"
	"github.com/redis/rueidis/vshim/vexp"
	"github.com/redis/rueidis/vshim/vrun"
	"github.com/redis/rueidis/vshim/vsched"
)

// One or two callers issue NON-retryable writes (APPEND log <tag>); the environment deviates:
//
//	fault    : drop-before / drop-after executing the command (explorer deviation at every command), or none
//	stall    : the reply of the tagged command is withheld for `delay` (0 = not stalled, <0 = forever)
//	lifetime : ConnLifetime (the expiry timer lands while the command is in flight when startAt is just before it)
type c03cfg struct {
	keepalive time.Duration // >0: keep-alive pings of the connection are enabled with this period
	name      string
	api       string // do | multi (APPEND a, APPEND b) | txn (MULTI, APPEND, EXEC)
	callers   int
	always    bool
	fault     bool
	delay     time.Duration
	lifetime  time.Duration
	startAt   time.Duration
	retry     bool // DisableRetry=false (retries must still not re-send non-retryable commands)
}

func c03body(c c03cfg) func(x *vsched.Exec) {
	return func(x *vsched.Exec) {
		e := vwNew(func(o *ClientOption, srv *simredis.Server, n *simnet.Net) {
			o.AlwaysPipelining = c.always
			o.ConnLifetime = c.lifetime
			if c.keepalive > 0 {
				o.Dialer.KeepAlive = c.keepalive
			}
			o.DisableRetry = !c.retry
			if c.retry {
				o.RetryDelay = func(int, Completed, error) time.Duration { return 0 }
			}
			stalled := map[string]bool{}
			n.Script = func(cn *simnet.Conn, argv []string) int {
				if c.delay == 0 || strings.ToUpper(argv[0]) != "APPEND" && strings.ToUpper(argv[0]) != "EXEC" {
					return simnet.FaultNone
				}
				key := fmt.Sprint(argv)
				if strings.ToUpper(argv[0]) == "APPEND" && c.api == "txn" || stalled[key] {
					return simnet.FaultNone // only the first arrival of the executing command is delayed
				}
				stalled[key] = true
				if c.delay > 0 {
					vsched.AddTimer(c.delay, func() { cn.Release() })
				}
				return simnet.FaultStall
			}
			if c.fault {
				n.Faults = func(cn *simnet.Conn, argv []string) bool {
					up := strings.ToUpper(argv[0])
					return up == "APPEND" || up == "EXEC" || up == "MULTI"
				}
				n.FaultMenu = []int{simnet.FaultDropBefore, simnet.FaultDropAfter}
			}
		})
		if e.err != nil {
			x.Fail("client setup failed", "%v", e.err)
			return
		}
		type res struct {
			tags []string
			errs []error
		}
		var results []*res
		for ci := 0; ci < c.callers; ci++ {
			ci := ci
			vsched.GoNamed(fmt.Sprintf("c%d", ci), func() {
				if c.startAt > 0 {
					time.Sleep(c.startAt)
				}
				b := e.client.B()
				t := fmt.Sprintf("t%d", ci)
				r := &res{}
				results = append(results, r)
				ctx := context.Background()
				switch c.api {
				case "do":
					r.tags = []string{t}
					r.errs = []error{e.client.Do(ctx, b.Append().Key("log").Value(t).Build()).Error()}
				case "multi":
					r.tags = []string{t + "a", t + "b"}
					for _, rr := range e.client.DoMulti(ctx, b.Append().Key("log").Value(t+"a").Build(), b.Append().Key("log").Value(t+"b").Build()) {
						r.errs = append(r.errs, rr.Error())
					}
				case "txn":
					r.tags = []string{t}
					for _, rr := range e.client.DoMulti(ctx, b.Multi().Build(), b.Append().Key("log").Value(t).Build(), b.Exec().Build()) {
						r.errs = append(r.errs, rr.Error())
					}
				}
			})
		}
		st := x.Run()
		if st != vsched.Quiescent && st != vsched.Deadlock {
			return
		}
		if st == vsched.Deadlock && c.delay >= 0 {
			x.SetData("allow", "")
			return
		}
		x.SetData("allow", "deadlock") // reply withheld forever and no lifetime: the call legitimately waits
		// ---- oracle: the server's own state tells how often each tagged write was executed
		log := e.srv.Do("GET", "log").S
		var out []string
		for _, r := range results {
			for i, t := range r.tags {
				n := strings.Count(log, t)
				errStr := "?"
				if i < len(r.errs) {
					errStr = vwErrStr(r.errs[len(r.errs)-len(r.tags)+i])
					if c.api == "txn" {
						errStr = vwErrStr(r.errs[len(r.errs)-1])
					}
				}
				out = append(out, fmt.Sprintf("%s x%d err=%s", t, n, errStr))
				if n > 1 {
					x.Fail("non-retryable command executed more than once", "APPEND log %s was executed %d times by the server (log=%q); results %v; connections %d", t, n, log, out, len(e.net.Conns))
				}
				if n == 0 && errStr == "<nil>" {
					x.Fail("call reported success but the command was never executed", "%s; log=%q", t, log)
				}
			}
		}
		x.Outcome = fmt.Sprintf("%v conns=%d", out, len(e.net.Conns))
	}
}

func TestVerif_C03(t *testing.T) {
	vrun.Main(t, "C03", func(r *vrun.Run) {
		r.Rule = "1-2 callers issue non-retryable writes (Do / DoMulti / MULTI..EXEC) on a real single client; environment: connection dropped before or after executing a command at every command (deviation), reply withheld for 0.5s / 2s / forever, connection-lifetime expiry landing while the command is in flight (virtual clock), keep-alive ping ticks landing inside the close grace period before or after the reply, retries enabled with zero delay; all schedules within the preemption/delay/deviation bound; oracle: the server-side log contains each tagged write at most once; non-trivial = schedule in which a thread blocked"
		sec, ms := time.Second, time.Millisecond
		cfgs := []c03cfg{
			{name: "drop/do", api: "do", callers: 1, fault: true, retry: true},
			{name: "drop/always/do|do", api: "do", callers: 2, always: true, fault: true, retry: true},
			{name: "drop/multi", api: "multi", callers: 1, fault: true, retry: true},
			{name: "drop/always/txn|txn", api: "txn", callers: 2, always: true, fault: true, retry: true},
			{name: "lifetime/idle/do", api: "do", callers: 1, lifetime: 5 * sec, startAt: 6 * sec},
			{name: "lifetime/always/do-fast-reply", api: "do", callers: 1, always: true, lifetime: 5 * sec, startAt: 4900 * ms, delay: 500 * ms},
			{name: "lifetime/always/do-slow-reply", api: "do", callers: 1, always: true, lifetime: 5 * sec, startAt: 4900 * ms, delay: 2 * sec},
			{name: "lifetime/always/do-no-reply", api: "do", callers: 1, always: true, lifetime: 5 * sec, startAt: 4900 * ms, delay: -1},
			{name: "lifetime/always/multi-slow-reply", api: "multi", callers: 1, always: true, lifetime: 5 * sec, startAt: 4900 * ms, delay: 2 * sec},
			{name: "lifetime/always/txn-slow-reply", api: "txn", callers: 1, always: true, lifetime: 5 * sec, startAt: 4900 * ms, delay: 2 * sec},
			{name: "lifetime/sync/do-slow-reply", api: "do", callers: 1, lifetime: 5 * sec, startAt: 4900 * ms, delay: 2 * sec},
			{name: "lifetime/always/do|do-slow-reply", api: "do", callers: 2, always: true, lifetime: 5 * sec, startAt: 4900 * ms, delay: 2 * sec},
			{name: "lifetime+keepalive1300/always/do-fast-reply", api: "do", callers: 1, always: true, lifetime: 5 * sec, startAt: 4900 * ms, delay: 500 * ms, keepalive: 1300 * ms},
			{name: "lifetime+keepalive1100/always/do-fast-reply", api: "do", callers: 1, always: true, lifetime: 5 * sec, startAt: 4900 * ms, delay: 500 * ms, keepalive: 1100 * ms},
			{name: "lifetime+keepalive2600/always/multi-fast-reply", api: "multi", callers: 1, always: true, lifetime: 5 * sec, startAt: 4900 * ms, delay: 500 * ms, keepalive: 2600 * ms},
			{name: "lifetime+keepalive1300/always/txn-fast-reply", api: "txn", callers: 1, always: true, lifetime: 5 * sec, startAt: 4900 * ms, delay: 500 * ms, keepalive: 1300 * ms},
			{name: "lifetime+keepalive1300/always/do|do-fast-reply", api: "do", callers: 2, always: true, lifetime: 5 * sec, startAt: 4900 * ms, delay: 500 * ms, keepalive: 1300 * ms},
			{name: "lifetime+drop/always/do", api: "do", callers: 1, always: true, fault: true, lifetime: 5 * sec, startAt: 4900 * ms, delay: 500 * ms},
		}
		for ci, c := range cfgs {
			dev := 0
			if c.fault {
				dev = vrun.Pick(r, 1, 2)
			}
			vexp.Run(r, vexp.Prog{Name: c.name, Delay: 1, Budget: vsched.Budget{MaxPreempt: vrun.Pick(r, 1, 2), MaxDev: dev}, Opts: vsched.Options{Horizon: 20000, MaxVirtual: time.Minute}, Body: c03body(c), Seconds: r.Remaining() / float64(len(cfgs)-ci)})
		}
		r.Assume("single-client mode over the wire; the MOVED/ASK/REDIRECT re-send rule of cluster/standalone/sentinel clients is checked at the routing seam (C19/C28)")
	})
}
