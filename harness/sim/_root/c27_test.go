//go:build verif

package rueidis

import (
	"context"
	"fmt"
	"strings"
	"testing"
	"time"

	"github.com/redis/rueidis/vshim/simnet"
	"github.com/redis/rueidis/vshim/simredis"
	"github.com/redis/rueidis/vshim/vexp"
	"github.com/redis/rueidis/vshim/vrun"
	"github.com/redis/rueidis/vshim/vsched"
)

// writer events executed by an out-of-band client: set1 (SET k1) | set2 | mset (MSET k1 k2) | flush | drop (server kills the connection)
type c27cfg struct {
	name      string
	dedicated bool // the callback is installed with DedicatedClient.SetOnInvalidations and the client is released afterwards
	events    []string
	mode      string // optin | bcast
	// concurrent: the next holder is another thread that is already waiting in Dedicated() for the only pooled
	// connection while the first holder releases it; it installs its own callback, turns tracking on and reads k3
	concurrent bool
	// nocache: ClientOption.DisableCache with manual tracking (CLIENT TRACKING ON sent by the user, plain GETs): the
	// callbacks must behave the same, including the nil at connection loss
	nocache bool
}

func c27pushLog(s *simredis.Session) []string {
	var out []string
	for _, p := range s.Pushes {
		if len(p) > 0 && p[0] == "invalidate" {
			out = append(out, strings.Join(p[1:], ","))
		}
	}
	return out
}

func c27body(c c27cfg) func(x *vsched.Exec) {
	return func(x *vsched.Exec) {
		var cb []string
		record := func(m []RedisMessage) {
			if m == nil {
				cb = append(cb, "<nil>")
				return
			}
			var ks []string
			for _, k := range m {
				s, _ := k.ToString()
				ks = append(ks, s)
			}
			cb = append(cb, strings.Join(ks, ","))
		}
		e := vwNew(func(o *ClientOption, srv *simredis.Server, n *simnet.Net) {
			srv.Do("SET", "k1", "a")
			srv.Do("SET", "k2", "b")
			srv.Do("SET", "k3", "c")
			o.BlockingPoolSize = 1
			o.DisableCache = c.nocache
			if !c.dedicated {
				o.OnInvalidations = record
			}
			if c.mode == "bcast" {
				o.ClientTrackingOptions = []string{"BCAST", "PREFIX", "k"}
			}
		})
		if e.err != nil {
			x.Fail("client setup failed", "%v", e.err)
			return
		}
		ctx := context.Background()
		warmed := false
		released := false
		dropped := false
		var hookCh <-chan error
		var afterRelease []error
		vsched.GoNamed("user", func() {
			b := e.client.B()
			if c.dedicated {
				dc, cancel := e.client.Dedicate()
				hookCh = dc.SetOnInvalidations(record)
				dc.Do(ctx, b.Echo().Message("d-start").Build())
				for _, k := range []string{"k1", "k2"} {
					if c.mode != "bcast" {
						dc.Do(ctx, b.ClientCaching().Yes().Build())
					}
					dc.Do(ctx, b.Get().Key(k).Build())
				}
				warmed = true
				vsched.Point("hold", func() bool { return released })
				dc.Do(ctx, b.Echo().Message("d-end").Build())
				cancel()
				afterRelease = append(afterRelease, dc.Do(ctx, b.Echo().Message("late").Build()).Error())
				afterRelease = append(afterRelease, dc.DoMulti(ctx, b.Echo().Message("late2").Build())[0].Error())
				afterRelease = append(afterRelease, dc.Receive(ctx, b.Subscribe().Channel("x").Build(), func(PubSubMessage) {}))
				if c.concurrent {
					return
				}
				// the next holder gets the same pooled connection
				e.client.Dedicated(func(d2 DedicatedClient) error {
					return d2.Do(ctx, b.Echo().Message("second-holder").Build()).Error()
				})
				return
			}
			if c.nocache {
				e.client.Do(ctx, b.Arbitrary("CLIENT", "TRACKING", "ON").Build())
				for _, k := range []string{"k1", "k2"} {
					e.client.Do(ctx, b.Get().Key(k).Build())
				}
				warmed = true
				return
			}
			for _, k := range []string{"k1", "k2"} {
				e.client.DoCache(ctx, b.Get().Key(k).Cache(), time.Hour)
			}
			warmed = true
		})
		var cb2 []string
		secondDone := false
		if c.concurrent {
			vsched.GoNamed("second", func() {
				vsched.Point("wait-warm", func() bool { return warmed })
				e.client.Dedicated(func(d2 DedicatedClient) error {
					b := d2.B()
					d2.SetOnInvalidations(func(m []RedisMessage) {
						for _, k := range m {
							ks, _ := k.ToString()
							cb2 = append(cb2, ks)
						}
					})
					d2.Do(ctx, b.Echo().Message("second-holder").Build())
					d2.Do(ctx, b.Arbitrary("CLIENT", "TRACKING", "ON", "OPTIN").Build())
					d2.Do(ctx, b.ClientCaching().Yes().Build())
					d2.Do(ctx, b.Get().Key("k3").Build())
					e.srv.Do("SET", "k3", "changed")
					d2.Do(ctx, b.Echo().Message("second-end").Build()) // the push precedes this reply on the wire
					return nil
				})
				secondDone = true
			})
		}
		vsched.GoNamed("writer", func() {
			vsched.Point("wait-warm", func() bool { return warmed })
			for _, ev := range c.events {
				vsched.Point("event", nil)
				switch ev {
				case "set1":
					e.srv.Do("SET", "k1", "x")
				case "set2":
					e.srv.Do("SET", "k2", "y")
				case "mset":
					e.srv.Do("MSET", "k1", "p", "k2", "q")
				case "flush":
					e.srv.FlushAll(nil)
				case "drop":
					dropped = true
					for _, cn := range e.net.Conns {
						cn.ServerDrop()
					}
				}
			}
			released = true
		})
		if x.Run() != vsched.Quiescent {
			return
		}
		// the session that tracked the keys
		var sess *simredis.Session
		for _, s := range e.srv.Sessions {
			for _, a := range s.Executed {
				if (c.dedicated && len(a) == 2 && a[1] == "d-start") || (!c.dedicated && strings.ToUpper(a[0]) == "GET") {
					sess = s
				}
			}
		}
		if sess == nil {
			x.Fail("harness: tracking session not found", "")
			return
		}
		want := c27pushLog(sess)
		if c.concurrent {
			// pushes for k3 belong to the next holder's callback (checked separately)
			var w2 []string
			for _, p := range want {
				if p != "k3" {
					w2 = append(w2, p)
				}
			}
			want = w2
		}
		got := cb
		x.Outcome = fmt.Sprintf("callbacks=%v pushes=%v", got, want)
		// callbacks = pushes in order; at connection loss exactly one extra nil
		if dropped {
			// pushes written right before the drop may be lost with the connection: a prefix, then the loss marker
			body := got
			lossNils := 0
			for len(body) > 0 && body[len(body)-1] == "<nil>" && (len(body) > len(want) || want[len(body)-1] != "<nil>") {
				body = body[:len(body)-1]
				lossNils++
			}
			if len(body) > len(want) || strings.Join(body, "|") != strings.Join(want[:len(body)], "|") {
				x.Fail("invalidation callbacks differ from the server's pushes (in wire order)", "callbacks %v, server pushes %v", cb, want)
			}
			// a dedicated client that is released before its pipe noticed the loss has already uninstalled the callback
			if lossNils > 1 || (lossNils != 1 && !c.dedicated) {
				x.Fail("connection loss was not reported by exactly one nil invalidation", "callbacks %v (nil markers after the last delivered push: %d), server pushes %v", cb, lossNils, want)
			}
		} else {
			if strings.Join(got, "|") != strings.Join(want, "|") {
				x.Fail("invalidation callbacks differ from the server's pushes (in wire order)", "callbacks %v, server pushes %v", cb, want)
			}
		}
		if c.dedicated && !dropped {
			// after release: every call is rejected, the hook channel is closed, tracking is off before the next holder's first command
			for _, err := range afterRelease {
				if err != ErrDedicatedClientRecycled {
					x.Fail("released dedicated client accepted a call", "got %v", err)
				}
			}
			select {
			case _, ok := <-hookCh:
				if ok {
					if _, ok2 := <-hookCh; ok2 {
						x.Fail("hook channel delivered more than one value", "")
					}
				}
			default:
				x.Fail("hook channel not closed after release", "")
			}
			off, second := -1, -1
			for i, a := range sess.Executed {
				j := strings.ToUpper(strings.Join(a, " "))
				if j == "CLIENT TRACKING OFF" && off < 0 { // the first holder's (the next holder's release sends another one)
					off = i
				}
				if len(a) == 2 && a[1] == "second-holder" {
					second = i
				}
			}
			if c.concurrent && secondDone && strings.Join(cb2, ",") != "k3" {
				x.Fail("the next holder's invalidation callback missed an invalidation of a key it tracks", "the next holder turned tracking on, read k3 and k3 was changed; its callback got %v; session log %v", cb2, sess.Executed)
			}
			if second < 0 {
				x.Fail("the next holder did not reuse the pooled connection", "session log %v", sess.Executed)
			} else if off < 0 || off > second {
				x.Fail("tracking was not turned off before the connection was reused", "session log %v", sess.Executed)
			}
		}
	}
}

func TestVerif_C27(t *testing.T) {
	vrun.Main(t, "C27", func(r *vrun.Run) {
		r.Rule = "a real client whose connection tracks two keys (OnInvalidations option, or a dedicated client with SetOnInvalidations that is released and reused afterwards) x every out-of-band event sequence of length <=2 (thorough <=3) over {SET k1, SET k2, MSET k1 k2, FLUSHALL, connection drop}, opt-in and broadcast tracking, and DisableCache with tracking switched on by the user; all schedules within the preemption/delay bound; oracle: callback argument log = the server's invalidation push log of that session in wire order (+ exactly one nil at connection loss), CLIENT TRACKING OFF precedes the next holder's first command (the next holder being the same thread, or another thread already blocked on the exhausted pool that turns tracking on again and must see its own invalidation)"
		evs := []string{"set1", "set2", "mset", "flush", "drop"}
		var seqs [][]string
		maxLen := vrun.Pick(r, 2, 3)
		var gen func(cur []string)
		gen = func(cur []string) {
			if len(cur) > 0 {
				seqs = append(seqs, append([]string{}, cur...))
			}
			if len(cur) == maxLen || (len(cur) > 0 && cur[len(cur)-1] == "drop") {
				return
			}
			for _, ev := range evs {
				gen(append(cur, ev))
			}
		}
		gen(nil)
		var cfgs []c27cfg
		for _, ded := range []bool{false, true} {
			for _, mode := range []string{"optin", "bcast"} {
				if mode == "bcast" && ded {
					continue
				}
				for _, sq := range seqs {
					if mode == "bcast" && r.Quick() && len(sq) > 1 {
						continue
					}
					cfgs = append(cfgs, c27cfg{name: fmt.Sprintf("ded=%v/%s/%s", ded, mode, strings.Join(sq, ",")), dedicated: ded, events: sq, mode: mode})
				}
			}
		}
		for _, sq := range [][]string{{"set1"}, {"drop"}, {"set1", "drop"}, {"mset", "flush"}, {"flush", "drop"}} {
			cfgs = append(cfgs, c27cfg{name: "ded=false/nocache/" + strings.Join(sq, ","), events: sq, mode: "manual", nocache: true})
		}
		for _, sq := range [][]string{{"set1"}, {"flush"}, {"set1", "set2"}} {
			cfgs = append(cfgs, c27cfg{name: "ded=true/optin/concurrent-next-holder/" + strings.Join(sq, ","), dedicated: true, events: sq, mode: "optin", concurrent: true})
		}
		for ci, c := range cfgs {
			if !r.Mine(ci) {
				continue
			}
			if r.TimeUp() {
				break
			}
			vexp.Run(r, vexp.Prog{Name: c.name, NoShard: true, Delay: 1, Budget: vsched.Budget{MaxPreempt: 1}, Opts: vsched.Options{Horizon: 20000}, Body: c27body(c)})
		}
		delete(r.Bounds, "programs")
		r.Bounds["programs_count"] = len(cfgs)
		r.Assume("the server's push log per session is the reference; a push written right before a connection drop may be lost with the connection (prefix required then)")
	})
}
