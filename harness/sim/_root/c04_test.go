//go:build verif

package rueidis

import (
	"context"
	"fmt"
	"net"
	"strings"
	"testing"
	"time"

	"github.com/redis/rueidis/vshim/simnet"
	"github.com/redis/rueidis/vshim/simredis"
	"github.com/redis/rueidis/vshim/vexp"
	"github.com/redis/rueidis/vshim/vrun"
	"github.com/redis/rueidis/vshim/vsched"
)

// caller ops: do | multi2 | cache | recv | blpop
type c04cfg struct {
	name      string
	callers   [][]string
	fault     string // drop (server drops: before / after executing a command) | stall (reply withheld, keep-alive ping must detect it) | none
	closer    bool   // a thread calls client.Close() at any point
	always    bool
	faultOnly string // restrict fault candidates to commands with this name ("" = any user command)
}

type c04call struct {
	who, kind string
	tags      []string
	got       []string
	err       error
	afterCls  bool
}

func c04body(c c04cfg) func(x *vsched.Exec) {
	return func(x *vsched.Exec) {
		armed := false
		faults := 0
		e := vwNew(func(o *ClientOption, srv *simredis.Server, n *simnet.Net) {
			o.AlwaysPipelining = c.always
			o.BlockingPoolSize = 2
			if c.fault == "stall" {
				o.Dialer = net.Dialer{KeepAlive: time.Second}
				o.ConnWriteTimeout = time.Second
			}
			if c.fault != "none" {
				n.Faults = func(cn *simnet.Conn, argv []string) bool {
					if !armed || faults > 0 {
						return false
					}
					up := strings.ToUpper(argv[0])
					if up == "PING" && c.faultOnly == "PING" {
						return true
					}
					if up == "PING" || up == "HELLO" || up == "CLIENT" && len(argv) > 1 && strings.ToUpper(argv[1]) != "CACHING" {
						return false
					}
					if c.faultOnly != "" && up != c.faultOnly {
						return false
					}
					return true
				}
				if c.fault == "drop" {
					n.FaultMenu = []int{simnet.FaultDropBefore, simnet.FaultDropAfter}
				} else {
					n.FaultMenu = []int{simnet.FaultStall}
				}
			}
		})
		if e.err != nil {
			x.Fail("client setup failed", "%v", e.err)
			return
		}
		e.net.OnDial = func(cn *simnet.Conn) {}
		armed = true
		// count faults through the connections' Faulted marker
		countFaults := func() int {
			k := 0
			for _, cn := range e.net.Conns {
				if cn.Faulted != "" {
					k++
				}
			}
			return k
		}
		origFaults := e.net.Faults
		if origFaults != nil {
			e.net.Faults = func(cn *simnet.Conn, argv []string) bool {
				faults = countFaults()
				return origFaults(cn, argv)
			}
		}
		var calls []*c04call
		closed := false
		finished := 0
		doOp := func(who, op, t string) *c04call {
			call := &c04call{who: who, kind: op, afterCls: closed}
			b := e.client.B()
			ctx := context.Background()
			switch op {
			case "do":
				call.tags = []string{t}
				s, err := e.client.Do(ctx, b.Echo().Message(t).Build()).ToString()
				call.got, call.err = []string{s}, err
			case "multi2":
				call.tags = []string{t + "a", t + "b"}
				for _, r := range e.client.DoMulti(ctx, b.Echo().Message(t+"a").Build(), b.Echo().Message(t+"b").Build()) {
					s, err := r.ToString()
					call.got = append(call.got, s)
					if err != nil {
						call.err = err
					}
				}
			case "cache":
				call.tags = []string{"echo:" + t}
				s, err := e.client.DoCache(ctx, b.Get().Key("echo:"+t).Cache(), time.Hour).ToString()
				call.got, call.err = []string{s}, err
			case "cachesame":
				call.tags = []string{"echo:same"}
				s, err := e.client.DoCache(ctx, b.Get().Key("echo:same").Cache(), time.Hour).ToString()
				call.got, call.err = []string{s}, err
			case "recv":
				call.err = e.client.Receive(ctx, b.Subscribe().Channel("ch").Build(), func(m PubSubMessage) {})
			case "unsub":
				// a single pipelined command that the reader dequeues when the unsubscribe push arrives, before its PONG
				vsched.Point("wait-sub", func() bool {
					for _, ss := range e.srv.Sessions {
						if len(ss.Subs) > 0 {
							return true
						}
					}
					return closed
				})
				call.err = e.client.Do(ctx, b.Unsubscribe().Channel("ch").Build()).Error()
				call.kind = "unsub"
			case "blpop":
				call.tags = []string{"list"}
				arr, err := e.client.Do(ctx, b.Blpop().Key("list").Timeout(0).Build()).AsStrSlice()
				call.err = err
				if len(arr) == 2 {
					call.got = []string{arr[0]}
				}
			}
			return call
		}
		nreq := 0
		blocking := false
		laterDone := false
		for ci, ops := range c.callers {
			ci, ops := ci, ops
			who := fmt.Sprintf("c%d", ci)
			blocks := false
			for _, op := range ops {
				if op == "recv" || op == "blpop" {
					blocks, blocking = true, true
				}
			}
			if !blocks {
				nreq++
			}
			vsched.GoNamed(who, func() {
				defer func() {
					if !blocks {
						finished++
					}
				}()
				for oi, op := range ops {
					calls = append(calls, doOp(who, op, fmt.Sprintf("%s.%d", who, oi)))
				}
			})
		}
		if c.closer {
			vsched.GoNamed("closer", func() {
				e.client.Close()
				closed = true
			})
		}
		var later *c04call
		tries := 0
		vsched.GoNamed("later", func() {
			vsched.Point("gate-later", func() bool { return finished >= nreq })
			for tries = 1; tries <= 3; tries++ {
				later = doOp("later", "do", fmt.Sprintf("later.%d", tries))
				if later.err == nil || c.closer {
					break
				}
			}
			laterDone = true
		})
		if blocking {
			// Receive / BLPOP only return when their connection fails or the client is closed: close the client at the end
			vsched.GoNamed("janitor", func() {
				vsched.Point("gate-janitor", func() bool { return laterDone })
				e.client.Close()
				// a blocking command on a pooled connection is not interrupted by Close: it ends with its reply
				vsched.Point("janitor-push", nil)
				e.srv.Do("RPUSH", "list", "x")
			})
		}
		if x.Run() != vsched.Quiescent {
			return // a call that never returns shows up as a deadlock
		}
		// ---- oracle
		var out []string
		faulted := countFaults() > 0
		for _, cl := range calls {
			out = append(out, fmt.Sprintf("%s:%s=%v/%s", cl.who, cl.kind, cl.got, vwErrStr(cl.err)))
			if cl.kind == "unsub" {
				continue // returns nil or the connection error; what matters is that it returns (deadlock detection)
			}
			if cl.kind == "recv" || cl.kind == "blpop" {
				// these only return when the connection fails or the client is closed: they must carry an error then
				hasUnsub := false
				for _, ops := range c.callers {
					for _, op := range ops {
						if op == "unsub" {
							hasUnsub = true
						}
					}
				}
				if cl.err == nil && cl.kind == "recv" && !hasUnsub {
					x.Fail("blocking call returned without error although nothing was delivered", "%s %s; %v", cl.who, cl.kind, out)
				}
				continue
			}
			if cl.err != nil {
				if !faulted && !c.closer {
					x.Fail("call failed although no fault was injected", "%s %s: %v", cl.who, cl.kind, cl.err)
				}
				if cl.afterCls && cl.err != ErrClosing {
					x.Fail("call issued after Close did not return ErrClosing", "%s %s: %v", cl.who, cl.kind, cl.err)
				}
				continue
			}
			if cl.afterCls {
				x.Fail("call issued after Close succeeded", "%s %s: %v", cl.who, cl.kind, cl.got)
			}
			for i, t := range cl.tags {
				if i >= len(cl.got) || cl.got[i] != t {
					x.Fail("call received a reply that is not its own", "%s %s sent %v received %v; %v", cl.who, cl.kind, cl.tags, cl.got, out)
				}
			}
		}
		if later != nil {
			out = append(out, fmt.Sprintf("later(try %d)=%v/%s", tries, later.got, vwErrStr(later.err)))
			if closed || c.closer {
				if later.afterCls && later.err != ErrClosing {
					x.Fail("call issued after Close did not return ErrClosing", "later: %v / %v", later.got, later.err)
				}
			} else if later.err != nil {
				x.Fail("calls after a connection failure are not served by a fresh connection", "later call still fails after %d tries: %v; %v", tries, later.err, out)
			} else if later.got[0] != later.tags[0] {
				x.Fail("call received a reply that is not its own", "later sent %v received %v", later.tags, later.got)
			}
		}
		x.Outcome = fmt.Sprintf("%s conns=%d", strings.Join(out, " "), len(e.net.Conns))
	}
}

func TestVerif_C04(t *testing.T) {
	vrun.Main(t, "C04", func(r *vrun.Run) {
		r.Rule = "pending-call mixes (sync/pipelined Do, DoMulti, DoCache owner+waiter, Receive, blocking BLPOP) on a real client x one connection fault placed at every command (server drops before/after executing it, or withholds the reply so that only the keep-alive ping can notice) x Close() at any point, all within the preemption/delay bound; a later call must be served by a fresh connection; a call that never returns is a deadlock; non-trivial = schedule in which a thread blocked"
		cfgs := []c04cfg{
			{name: "drop/do|do", callers: [][]string{{"do"}, {"do"}}, fault: "drop"},
			{name: "drop/always/do,do|do", callers: [][]string{{"do", "do"}, {"do"}}, fault: "drop", always: true},
			{name: "drop/multi2|do", callers: [][]string{{"multi2"}, {"do"}}, fault: "drop"},
			{name: "drop/cachesame|cachesame", callers: [][]string{{"cachesame"}, {"cachesame"}}, fault: "drop"},
			{name: "drop/cache|do", callers: [][]string{{"cache"}, {"do"}}, fault: "drop"},
			{name: "drop/recv|do", callers: [][]string{{"recv"}, {"do"}}, fault: "drop", faultOnly: "ECHO"},
			{name: "drop/recv|unsub", callers: [][]string{{"recv"}, {"unsub"}}, fault: "drop", faultOnly: "PING"},
			{name: "drop/blpop|do", callers: [][]string{{"blpop"}, {"do"}}, fault: "drop", faultOnly: "BLPOP"},
			{name: "stall/do|do", callers: [][]string{{"do"}, {"do"}}, fault: "stall"},
			{name: "stall/always/cache|do", callers: [][]string{{"cache"}, {"do"}}, fault: "stall", always: true},
			{name: "close/do|do", callers: [][]string{{"do"}, {"do"}}, fault: "none", closer: true},
			{name: "close/always/do,do|cache", callers: [][]string{{"do", "do"}, {"cache"}}, fault: "none", closer: true, always: true},
			{name: "close/recv|do", callers: [][]string{{"recv"}, {"do"}}, fault: "none", closer: true},
			{name: "close/blpop|do", callers: [][]string{{"blpop"}, {"do"}}, fault: "none", closer: true},
			{name: "close/cachesame|cachesame", callers: [][]string{{"cachesame"}, {"cachesame"}}, fault: "none", closer: true},
		}
		for ci, c := range cfgs {
			dev := 1
			if c.fault == "none" {
				dev = 0
			}
			vexp.Run(r, vexp.Prog{Name: c.name, Delay: 1, Budget: vsched.Budget{MaxPreempt: vrun.Pick(r, 1, 2), MaxDev: dev}, Opts: vsched.Options{Horizon: 20000}, Body: c04body(c), Seconds: r.Remaining() / float64(len(cfgs)-ci)})
		}
		r.Assume("faults: the server side drops the connection before or after executing a command, or withholds replies forever (then KeepAlive=ConnWriteTimeout=1s of virtual time must detect it); a call racing with the teardown may still fail, so the later call retries up to 3 times")
	})
}
