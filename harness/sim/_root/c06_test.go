//go:build verif

package rueidis

import (
	"context"
	"fmt"
	"strings"
	"testing"
	"time"

	"github.com/redis/rueidis/vshim/simnet"
	"github.com/redis/rueidis/vshim/simredis"
	"github.com/redis/rueidis/vshim/vexp"
	"github.com/redis/rueidis/vshim/vrun"
	"github.com/redis/rueidis/vshim/vsched"
)

type c06map struct{ m map[string]RedisMessage }

func (c *c06map) Get(k string) RedisMessage    { return c.m[k] }
func (c *c06map) Set(k string, v RedisMessage) { c.m[k] = v }
func (c *c06map) Del(k string)                 { delete(c.m, k) }
func (c *c06map) Flush()                       { c.m = map[string]RedisMessage{} }

// reader ops: get (DoCache GET k) | mget (DoCache MGET k k2) | multi (DoMultiCache GET k, GET k2) | helper (MGetCache k,k2)
// writer ops: set (foreign SET k) | mset (foreign MSET k0 k: with batch, one push [k0 k]) | flush (FLUSHALL by another client) | own (SET k through this client) | drop (server kills the connection)
type c06cfg struct {
	name    string
	mode    string // optin | optout | bcast | adapter | static
	readers [][]string
	writer  []string
	p       int
	gate    int // >0: every thread except r0 starts only after r0 completed that many operations (reach non-initial cache states)
	// after: r0 performs these operations once every other thread has finished (observe the state reached)
	after []string
	batch bool // broadcast mode: the server announces all keys of one command in a single push
}

type c06obs struct {
	who        string
	op         string
	start, end int
	vals       []string // observed value of k (and k2)
	hit        []bool
	err        error
}

func c06body(c c06cfg) func(x *vsched.Exec) {
	return func(x *vsched.Exec) {
		clock := 0
		tick := func() int { clock++; return clock }
		type inval struct {
			at   int
			keys string // "" = flush/disconnect
		}
		var invals []inval
		e := vwNew(func(o *ClientOption, srv *simredis.Server, n *simnet.Net) {
			srv.Do("SET", "k", "v1")
			srv.Do("SET", "k2", "w1")
			srv.BcastBatch = c.batch
			o.OnInvalidations = func(m []RedisMessage) {
				if m == nil {
					invals = append(invals, inval{at: tick()})
					return
				}
				for _, k := range m {
					s, _ := k.ToString()
					invals = append(invals, inval{at: tick(), keys: s})
				}
			}
			switch c.mode {
			case "optout":
				o.ClientTrackingOptions = []string{"OPTOUT"}
			case "bcast":
				o.ClientTrackingOptions = []string{"BCAST", "PREFIX", "k"}
			case "adapter":
				o.NewCacheStoreFn = func(CacheStoreOption) CacheStore {
					return NewSimpleCacheAdapter(&c06map{m: map[string]RedisMessage{}})
				}
			}
		})
		if e.err != nil {
			x.Fail("client setup failed", "%v", e.err)
			return
		}
		ver := map[string]int{"k": 1, "k2": 1}
		type wr struct {
			key string // "" = flush
			ver int
			at  int
		}
		var writes []wr
		var obs []*c06obs
		ttl := time.Hour
		r0done := 0
		cache := func(b Builder, k string) Cacheable {
			if c.mode == "static" {
				return b.Get().Key(k).Cache().ToStaticTTL()
			}
			return b.Get().Key(k).Cache()
		}
		readers := c.readers
		if len(c.after) > 0 {
			readers = append(append([][]string{}, c.readers...), c.after)
		}
		finished := 0
		nthreads := len(c.readers)
		if len(c.writer) > 0 {
			nthreads++
		}
		for ri, ops := range readers {
			ri, ops := ri, ops
			who := fmt.Sprintf("r%d", ri)
			isAfter := len(c.after) > 0 && ri == len(readers)-1
			if isAfter {
				who = "r0"
			}
			vsched.GoNamed(who, func() {
				ctx := context.Background()
				if isAfter {
					vsched.Point("gate-after", func() bool { return finished >= nthreads })
				} else if ri > 0 && c.gate > 0 {
					vsched.Point("gate", func() bool { return r0done >= c.gate })
				}
				if !isAfter {
					defer func() { finished++ }()
				}
				for _, op := range ops {
					o := &c06obs{who: who, op: op, start: tick()}
					obs = append(obs, o)
					b := e.client.B()
					add := func(r RedisResult) {
						s, err := r.ToString()
						if err != nil {
							o.err = err
						}
						o.vals = append(o.vals, s)
						o.hit = append(o.hit, r.IsCacheHit())
					}
					switch op {
					case "get":
						add(e.client.DoCache(ctx, cache(b, "k"), ttl))
					case "getr":
						add(e.client.DoCache(ctx, b.Getrange().Key("k").Start(0).End(-1).Cache(), ttl))
					case "multi":
						for _, r := range e.client.DoMultiCache(ctx, CT(cache(b, "k"), ttl), CT(cache(b, "k2"), ttl)) {
							add(r)
						}
					case "mget":
						r := e.client.DoCache(ctx, b.Mget().Key("k", "k2").Cache(), ttl)
						arr, err := r.ToArray()
						if err != nil {
							o.err = err
						}
						for i := range arr {
							m := &arr[i]
							s, _ := m.ToString()
							o.vals = append(o.vals, s)
							o.hit = append(o.hit, m.IsCacheHit())
						}
					case "helper":
						m, err := MGetCache(e.client, ctx, ttl, []string{"k", "k2"})
						o.err = err
						for _, k := range []string{"k", "k2"} {
							mk := m[k]
							s, _ := mk.ToString()
							o.vals = append(o.vals, s)
							o.hit = append(o.hit, mk.IsCacheHit())
						}
					}
					o.end = tick()
					if ri == 0 {
						r0done++
					}
				}
			})
		}
		if len(c.writer) > 0 {
			vsched.GoNamed("writer", func() {
				if c.gate > 0 {
					vsched.Point("gate", func() bool { return r0done >= c.gate })
				}
				defer func() { finished++ }()
				for _, op := range c.writer {
					vsched.Point("foreign-write", nil)
					switch op {
					case "set":
						ver["k"]++
						e.srv.Do("SET", "k", fmt.Sprintf("v%d", ver["k"]))
						writes = append(writes, wr{"k", ver["k"], tick()})
					case "mset":
						// one command writing a key this client never read (announced first) and k
						ver["k"]++
						e.srv.Do("MSET", "k0", "x", "k", fmt.Sprintf("v%d", ver["k"]))
						writes = append(writes, wr{"k", ver["k"], tick()})
					case "set2":
						ver["k2"]++
						e.srv.Do("SET", "k2", fmt.Sprintf("w%d", ver["k2"]))
						writes = append(writes, wr{"k2", ver["k2"], tick()})
					case "flush":
						e.srv.FlushAll(nil)
						ver["k"], ver["k2"] = 0, 0
						writes = append(writes, wr{"", 0, tick()})
					case "own":
						ver["k"]++
						v := ver["k"]
						at := tick()
						e.client.Do(context.Background(), e.client.B().Set().Key("k").Value(fmt.Sprintf("v%d", v)).Build())
						writes = append(writes, wr{"k", v, at})
					}
				}
			})
		}
		if x.Run() != vsched.Quiescent {
			return
		}
		// ---- oracle: a hit observed by a call that started after the client processed the
		// invalidation caused by write i must not carry a version older than i.
		parse := func(s string) int {
			if s == "" {
				return 0
			}
			n := 0
			fmt.Sscanf(s[1:], "%d", &n)
			return n
		}
		var out []string
		for _, o := range obs {
			out = append(out, fmt.Sprintf("%s:%s=%v%v", o.who, o.op, o.vals, o.hit))
			if o.err != nil && !IsRedisNil(o.err) {
				x.Fail("cached read failed", "%s %s: %v", o.who, o.op, o.err)
				continue
			}
			keys := []string{"k", "k2"}
			for i, v := range o.vals {
				key := keys[i]
				got := parse(v)
				if got > ver[key] && !(ver[key] == 0) {
					x.Fail("cached read returned a value the server never had", "%s %s: %s=%q", o.who, o.op, key, v)
				}
				if !o.hit[i] {
					continue
				}
				// find the newest write to key whose invalidation was processed before this call started
				for wi, w := range writes {
					if w.key != key && w.key != "" {
						continue
					}
					// the invalidation processed for this write: first inval entry for key (or flush) logged after the write
					processed := -1
					for _, iv := range invals {
						if iv.at > w.at && (iv.keys == key || (iv.keys == "" && w.key == "")) {
							processed = iv.at
							break
						}
					}
					if processed >= 0 && o.start > processed && got < w.ver || (processed >= 0 && o.start > processed && w.key == "" && got != 0) {
						x.Fail("cache hit served a reply that predates a processed invalidation", "%s %s started at t=%d after the invalidation of write #%d (%s -> version %d) was processed at t=%d, but its hit returned %q; observations %v", o.who, o.op, o.start, wi, w.key, w.ver, processed, v, out)
					}
				}
			}
		}
		x.Outcome = strings.Join(out, " ")
	}
}

type c06countMap struct {
	c06map
	sets *int
}

func (c *c06countMap) Set(k string, v RedisMessage) { *c.sets++; c.c06map.Set(k, v) }

// c06late: a directed program for stores that look the value up and register the flight in two steps. Two readers miss
// on GET k at the same time; the second read reaches the server right after another client's SET k (so the
// invalidation precedes its reply on the wire) and its reply is withheld for 10ms. A third reader asks 5ms later: the
// invalidation has been processed by then, so it must not be served the value from before the SET.
func c06late(adapter bool) func(x *vsched.Exec) {
	return func(x *vsched.Exec) {
		execs := 0
		wrote := false
		sets := 0
		e := vwNew(func(o *ClientOption, srv *simredis.Server, n *simnet.Net) {
			srv.Do("SET", "k", "v1")
			if adapter {
				o.NewCacheStoreFn = func(CacheStoreOption) CacheStore {
					return NewSimpleCacheAdapter(&c06countMap{c06map: c06map{m: map[string]RedisMessage{}}, sets: &sets})
				}
			}
			n.Script = func(cn *simnet.Conn, argv []string) int {
				if strings.ToUpper(argv[0]) != "EXEC" {
					return simnet.FaultNone
				}
				execs++
				if execs == 2 && !wrote {
					wrote = true
					srv.Do("SET", "k", "v2") // another client's write lands just before this read
					vsched.AddTimer(10*time.Millisecond, func() { cn.Release() })
					return simnet.FaultStall
				}
				return simnet.FaultNone
			}
		})
		if e.err != nil {
			x.Fail("client setup failed", "%v", e.err)
			return
		}
		type obs struct {
			who, val string
			hit      bool
			at       time.Duration
			err      error
		}
		var out []obs
		read := func(who string) {
			m, err := e.client.DoCache(context.Background(), e.client.B().Get().Key("k").Cache(), time.Hour).ToMessage()
			v, _ := m.ToString()
			out = append(out, obs{who, v, m.IsCacheHit(), x.Elapsed(), err})
		}
		if adapter {
			// place r0 in the window between the adapter's look-up (read lock) and its registration (write lock) until
			// the other reader's reply has been stored; the rest of the schedule stays explored
			vsched.HoldAt("r0", "wlock", 1, func() bool { return sets > 0 })
		}
		vsched.GoNamed("r0", func() { read("r0") })
		vsched.GoNamed("r1", func() { read("r1") })
		vsched.GoNamed("r2", func() {
			time.Sleep(5 * time.Millisecond)
			if !wrote {
				return // the two reads shared one request: nothing to observe in this schedule
			}
			read("r2")
		})
		if x.Run() != vsched.Quiescent {
			return
		}
		var desc []string
		for _, o := range out {
			desc = append(desc, fmt.Sprintf("%s=%s(hit=%v,+%v)", o.who, o.val, o.hit, o.at))
			if o.err != nil {
				x.Fail("cached read failed although the server answered", "%s: %v", o.who, o.err)
			}
			if o.who == "r2" && o.val == "v1" {
				x.Fail("stale value served after its invalidation was processed", "the server changed k to v2 and pushed the invalidation at +0s, before the reply to the second read (withheld until +10ms); a read started at +5ms returned %q (cache hit=%v); all reads: %v", o.val, o.hit, desc)
			}
		}
		x.Outcome = fmt.Sprintf("second-request=%v %v", wrote, desc)
	}
}

func TestVerif_C06(t *testing.T) {
	vrun.Main(t, "C06", func(r *vrun.Run) {
		r.Rule = "all interleavings within the preemption/delay bound of 1-2 cached readers (DoCache GET, MGET, DoMultiCache, MGetCache helper) and a foreign or own writer / flush on one connection, for opt-in, opt-out, broadcast, static-TTL modes and a NewSimpleCacheAdapter store; server sends invalidation pushes as Redis 7 does; non-trivial = schedule in which a thread blocked"
		cfgs := []c06cfg{
			{name: "optin/get,get+set", mode: "optin", readers: [][]string{{"get", "get"}}, writer: []string{"set"}},
			{name: "optin/get,get+set,set", mode: "optin", readers: [][]string{{"get", "get", "get"}}, writer: []string{"set", "set"}},
			{name: "optin/get,get+flush", mode: "optin", readers: [][]string{{"get", "get"}}, writer: []string{"flush"}},
			{name: "optin/get,get+own", mode: "optin", readers: [][]string{{"get", "get"}}, writer: []string{"own"}},
			{name: "optin/multi,multi+set", mode: "optin", readers: [][]string{{"multi", "multi"}}, writer: []string{"set"}},
			{name: "optin/mget,mget+set2", mode: "optin", readers: [][]string{{"mget", "mget"}}, writer: []string{"set2"}},
			{name: "optin/helper,get+set", mode: "optin", readers: [][]string{{"helper", "get"}}, writer: []string{"set"}},
			{name: "adapter/multi,get+flush", mode: "adapter", readers: [][]string{{"multi", "get"}}, writer: []string{"flush"}},
			{name: "optout/get,get+set", mode: "optout", readers: [][]string{{"get", "get"}}, writer: []string{"set"}},
			{name: "bcast/get,get+set", mode: "bcast", readers: [][]string{{"get", "get"}}, writer: []string{"set"}},
			{name: "bcast-batch/get,get+mset", mode: "bcast", batch: true, readers: [][]string{{"get", "get"}}, writer: []string{"mset"}},
			{name: "bcast-batch/mget,mget+mset", mode: "bcast", batch: true, readers: [][]string{{"mget", "mget"}}, writer: []string{"mset"}},
			{name: "static/get,get+set", mode: "static", readers: [][]string{{"get", "get"}}, writer: []string{"set"}},
			{name: "static/multi,multi+set", mode: "static", readers: [][]string{{"multi", "multi"}}, writer: []string{"set"}},
			{name: "optin/gated/mget,mget|get+set", mode: "optin", readers: [][]string{{"mget", "mget"}, {"get"}}, writer: []string{"set"}, gate: 1},
			{name: "optin/gated/getr,getr|get+set", mode: "optin", readers: [][]string{{"getr"}, {"get"}}, writer: []string{"set"}, gate: 1, after: []string{"getr", "get"}},
			{name: "adapter/gated/getr,getr|get+set", mode: "adapter", readers: [][]string{{"getr"}, {"get"}}, writer: []string{"set"}, gate: 1, after: []string{"getr", "get"}},
			{name: "optin/gated/get,get|get+set", mode: "optin", readers: [][]string{{"get", "get"}, {"get"}}, writer: []string{"set"}, gate: 1},
			{name: "adapter/gated/mget,mget|get+set", mode: "adapter", readers: [][]string{{"mget", "mget"}, {"get"}}, writer: []string{"set"}, gate: 1},
			{name: "optin/mget|get,get+set", mode: "optin", readers: [][]string{{"mget"}, {"get", "get"}}, writer: []string{"set"}},
			{name: "adapter/get,get|get+set", mode: "adapter", readers: [][]string{{"get", "get"}, {"get"}}, writer: []string{"set"}},
			{name: "optin/get,get|get+set", mode: "optin", readers: [][]string{{"get", "get"}, {"get"}}, writer: []string{"set"}},
		}
		for ci, c := range cfgs {
			vexp.Run(r, vexp.Prog{Name: c.name, Delay: vrun.Pick(r, 1, 2), Budget: vsched.Budget{MaxPreempt: 2}, Opts: vsched.Options{Horizon: 8000}, Body: c06body(c), Seconds: r.Remaining() / float64(len(cfgs)-ci)})
		}
		for _, ad := range []bool{true, false} {
			name := "late-second-request/lru"
			if ad {
				name = "late-second-request/adapter"
			}
			vexp.Run(r, vexp.Prog{Name: name, Delay: 1, Budget: vsched.Budget{MaxPreempt: vrun.Pick(r, 2, 3)}, Opts: vsched.Options{Horizon: 8000, MaxVirtual: time.Minute}, Body: c06late(ad), Seconds: vrun.Pick(r, 15.0, 90.0)})
		}
		r.Assume("fake server tracks keys and emits invalidation pushes like Redis 7 (self-invalidations after the reply, others immediately); OnInvalidations marks the moment the connection has processed an invalidation")
	})
}
