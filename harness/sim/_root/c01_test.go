//go:build verif

package rueidis

import (
	"context"
	"fmt"
	"strings"
	"testing"

	"github.com/redis/rueidis/vshim/simnet"
	"github.com/redis/rueidis/vshim/simredis"
	"github.com/redis/rueidis/vshim/vexp"
	"github.com/redis/rueidis/vshim/vrun"
	"github.com/redis/rueidis/vshim/vsched"
)

// One caller performs a list of operations sequentially.
// op kinds: do | multi2 | cache | mcache2 | docancel (Do with a context cancelled by another thread) | multicancel | recv (Receive + publisher + cancel)
type c01cfg struct {
	name    string
	callers [][]string
	flow    bool // flow buffer instead of ring
	always  bool // AlwaysPipelining
	resp2   bool
	p       int
}

type c01call struct {
	who      string
	kind     string
	tags     []string
	got      []string
	err      error
	canceled bool
}

func c01body(c c01cfg) func(x *vsched.Exec) {
	return func(x *vsched.Exec) {
		old := queueTypeFromEnv
		if c.flow {
			queueTypeFromEnv = queueTypeFlowBuffer
		} else {
			queueTypeFromEnv = ""
		}
		defer func() { queueTypeFromEnv = old }()
		e := vwNew(func(o *ClientOption, srv *simredis.Server, n *simnet.Net) {
			o.AlwaysPipelining = c.always
			if c.resp2 {
				o.AlwaysRESP2 = true
				o.DisableCache = true
			}
		})
		if e.err != nil {
			x.Fail("client setup failed", "%v", e.err)
			return
		}
		var calls []*c01call
		var published, received []string
		for _, ops := range c.callers {
			for _, op := range ops {
				if op == "recv2" {
					fired := false
					e.srv.BetweenPushes = func(ss *simredis.Session, kind, channel string) {
						if !fired {
							fired = true
							e.srv.Publish(channel, "m0", false)
							published = append(published, "m0")
						}
					}
				}
			}
		}
		for ci, ops := range c.callers {
			ci, ops := ci, ops
			who := fmt.Sprintf("c%d", ci)
			needCancel := false
			for _, op := range ops {
				if strings.HasSuffix(op, "cancel") || op == "recv" || op == "recv2" {
					needCancel = true
				}
			}
			cctx, cancel := context.WithCancel(context.Background())
			if needCancel {
				vsched.GoNamed(who+".canceller", func() {
					if len(ops) == 1 && (ops[0] == "recv" || ops[0] == "recv2") {
						e.srv.Publish("ch", "m1", false)
						published = append(published, "m1")
						vsched.Point("publisher", nil)
						e.srv.Publish("ch", "m2", false)
						published = append(published, "m2")
						vsched.Point("publisher", nil)
					}
					cancel()
				})
			}
			vsched.GoNamed(who, func() {
				for oi, op := range ops {
					t := fmt.Sprintf("%s.%d", who, oi)
					call := &c01call{who: who, kind: op}
					calls = append(calls, call)
					b := e.client.B()
					switch op {
					case "do", "docancel":
						ctx := context.Background()
						if op == "docancel" {
							ctx = cctx
							call.canceled = true
						}
						call.tags = []string{t}
						r := e.client.Do(ctx, b.Echo().Message(t).Build())
						s, err := r.ToString()
						call.got, call.err = []string{s}, err
					case "multi2", "multicancel":
						ctx := context.Background()
						if op == "multicancel" {
							ctx = cctx
							call.canceled = true
						}
						call.tags = []string{t + "a", t + "b"}
						rs := e.client.DoMulti(ctx, b.Echo().Message(t+"a").Build(), b.Echo().Message(t+"b").Build())
						for _, r := range rs {
							s, err := r.ToString()
							call.got = append(call.got, s)
							if err != nil {
								call.err = err
							}
						}
					case "cache":
						call.tags = []string{"echo:" + t}
						r := e.client.DoCache(context.Background(), b.Get().Key("echo:"+t).Cache(), 1e9)
						s, err := r.ToString()
						call.got, call.err = []string{s}, err
					case "mcache2":
						call.tags = []string{"echo:" + t + "a", "echo:" + t + "b"}
						rs := e.client.DoMultiCache(context.Background(), CT(b.Get().Key("echo:"+t+"a").Cache(), 1e9), CT(b.Get().Key("echo:"+t+"b").Cache(), 1e9))
						for _, r := range rs {
							s, err := r.ToString()
							call.got = append(call.got, s)
							if err != nil {
								call.err = err
							}
						}
					case "recv2":
						// two channels in one SUBSCRIBE; the environment lets a message land between the two confirmations
						call.canceled = true
						call.kind = "recv"
						call.err = e.client.Receive(cctx, b.Subscribe().Channel("ch", "ch2").Build(), func(m PubSubMessage) {
							received = append(received, m.Message)
						})
					case "recv":
						call.canceled = true
						call.err = e.client.Receive(cctx, b.Subscribe().Channel("ch").Build(), func(m PubSubMessage) {
							received = append(received, m.Message)
						})
					}
				}
			})
		}
		if x.Run() != vsched.Quiescent {
			return
		}
		// ---- oracle
		var out []string
		for _, cl := range calls {
			out = append(out, fmt.Sprintf("%s:%s=%v/%s", cl.who, cl.kind, cl.got, vwErrStr(cl.err)))
			if cl.kind == "recv" {
				if cl.err != context.Canceled {
					x.Fail("Receive did not return the context error", "got %v", cl.err)
				}
				// delivered messages must be a subsequence-prefix of the published ones, in order, no duplicates
				j := 0
				for _, m := range received {
					for j < len(published) && published[j] != m {
						j++
					}
					if j == len(published) {
						x.Fail("Receive delivered a message out of order or twice", "published %v received %v", published, received)
						break
					}
					j++
				}
				continue
			}
			if cl.err != nil {
				if !cl.canceled || cl.err != context.Canceled {
					x.Fail("call failed without a reason", "%s %s: error %v (tags %v)", cl.who, cl.kind, cl.err, cl.tags)
				}
				for _, t := range cl.tags {
					if n := e.executed(t); n > 1 {
						x.Fail("command executed more than once", "%s executed %d times", t, n)
					}
				}
				continue
			}
			if len(cl.got) != len(cl.tags) {
				x.Fail("wrong number of replies", "%s %s: tags %v replies %v", cl.who, cl.kind, cl.tags, cl.got)
				continue
			}
			for i, t := range cl.tags {
				if cl.got[i] != t {
					x.Fail("call received a reply that is not its own", "%s %s position %d: sent %q received %q; all calls: %v", cl.who, cl.kind, i, t, cl.got[i], out)
				}
				if n := e.executed(t); n != 1 {
					x.Fail("command not executed exactly once", "%s executed %d times", t, n)
				}
			}
		}
		x.Outcome = strings.Join(out, " ")
		if p := e.pipe0(); p != nil {
			if w := p.loadWaits(); w != 0 {
				x.Fail("pipeline wait counter not back to zero at quiescence", "waits=%d", w)
			}
		}
	}
}

func TestVerif_C01(t *testing.T) {
	vrun.Main(t, "C01", func(r *vrun.Run) {
		r.Rule = "all interleavings within the preemption bound of 2-3 callers (Do/DoMulti/DoCache/DoMultiCache/Receive, cancellable contexts, publisher) on one real auto-pipelined connection (2-slot ring or flow buffer) over the fake network and server; every request carries a unique tag echoed by the server; non-trivial = schedule in which a thread blocked"
		P := 2
		cfgs := []c01cfg{
			{name: "2xdo", callers: [][]string{{"do"}, {"do"}}, p: 3},
			{name: "3xdo", callers: [][]string{{"do"}, {"do"}, {"do"}}},
			{name: "2x(do,do)", callers: [][]string{{"do", "do"}, {"do", "do"}}},
			{name: "multi2+do", callers: [][]string{{"multi2"}, {"do"}}},
			{name: "multi2,do+do", callers: [][]string{{"multi2", "do"}, {"do"}}},
			{name: "always/multi2,do+do", callers: [][]string{{"multi2", "do"}, {"do"}}, always: true},
			{name: "always/mcache2,do+cache", callers: [][]string{{"mcache2", "do"}, {"cache"}}, always: true},
			{name: "cache+do", callers: [][]string{{"cache"}, {"do"}}},
			{name: "mcache2+cache", callers: [][]string{{"mcache2"}, {"cache"}}},
			{name: "docancel+do,do", callers: [][]string{{"docancel"}, {"do", "do"}}},
			{name: "always/docancel,do+do", callers: [][]string{{"docancel", "do"}, {"do"}}, always: true},
			{name: "always/multicancel,multi2+do", callers: [][]string{{"multicancel", "multi2"}, {"do"}}, always: true},
			{name: "multicancel+do", callers: [][]string{{"multicancel"}, {"do"}}},
			{name: "recv+do", callers: [][]string{{"recv"}, {"do"}}},
			{name: "recv2+do,do", callers: [][]string{{"recv2"}, {"do", "do"}}},
			{name: "resp2/recv2+do,do", callers: [][]string{{"recv2"}, {"do", "do"}}, resp2: true},
			{name: "always/2x(do,do)", callers: [][]string{{"do", "do"}, {"do", "do"}}, always: true},
			{name: "flow/2x(do,do)", callers: [][]string{{"do", "do"}, {"do", "do"}}, flow: true},
			{name: "flow/docancel+do,do", callers: [][]string{{"docancel"}, {"do", "do"}}, flow: true},
			{name: "flow/always/multi2,do,do,multi2,do", callers: [][]string{{"multi2", "do", "do", "multi2", "do"}}, flow: true, always: true},
			{name: "flow/always/multi2,do|do,multi2", callers: [][]string{{"multi2", "do"}, {"do", "multi2"}}, flow: true, always: true},
			{name: "always/multi2,do,do,multi2,do", callers: [][]string{{"multi2", "do", "do", "multi2", "do"}}, always: true},
			{name: "flow/3xdo", callers: [][]string{{"do"}, {"do"}, {"do"}}, flow: true},
			{name: "resp2/2x(do,do)", callers: [][]string{{"do", "do"}, {"do", "do"}}, resp2: true},
			{name: "resp2/recv+do", callers: [][]string{{"recv"}, {"do"}}, resp2: true},
		}
		for ci, c := range cfgs {
			p := c.p
			if p == 0 {
				p = P
			}
			vexp.Run(r, vexp.Prog{Name: c.name, Delay: vrun.Pick(r, 1, 2), Budget: vsched.Budget{MaxPreempt: p}, Opts: vsched.Options{Horizon: 6000}, Body: c01body(c), Seconds: r.Remaining() / float64(len(cfgs)-ci)})
		}
		r.Assume("fake server replies in request order per connection and echoes each request's unique tag")
		r.Assume("scheduling points at every sync/atomic/channel/context/network operation; 2-3 callers, 1-2 operations each")
	})
}
