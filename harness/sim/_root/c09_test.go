//go:build verif

package rueidis

import (
	"context"
	"fmt"
	"strings"
	"testing"
	"time"

	"github.com/redis/rueidis/vshim/simnet"
	"github.com/redis/rueidis/vshim/simredis"
	"github.com/redis/rueidis/vshim/vexp"
	"github.com/redis/rueidis/vshim/vrun"
	"github.com/redis/rueidis/vshim/vsched"
)

// readers: get (DoCache GET k) | getc (same, with a context cancelled by another thread) | mget (DoCache MGET k k2)
// | multi (DoMultiCache GET k, GET k2) | get2 (DoCache GET k2)
// server behaviour for GET k: ok | err (k holds a list: WRONGTYPE) | abort (EXEC returns nil once) | drop (connection dies when the read is executed)
type c09cfg struct {
	name    string
	mode    string // lru | adapter
	server  string
	readers [][]string
	later   []string // operations of one more reader that starts after all others finished
}

type c09obs struct {
	who, op string
	vals    []string
	err     error
	tries   int
}

func c09body(c c09cfg) func(x *vsched.Exec) {
	return func(x *vsched.Exec) {
		aborted := false
		e := vwNew(func(o *ClientOption, srv *simredis.Server, n *simnet.Net) {
			srv.Do("SET", "k", "v1")
			srv.Do("SET", "k2", "w1")
			if c.server == "err" {
				srv.Do("DEL", "k")
				srv.Do("RPUSH", "k", "x")
			}
			if c.mode == "adapter" {
				o.NewCacheStoreFn = func(CacheStoreOption) CacheStore {
					return NewSimpleCacheAdapter(&c06map{m: map[string]RedisMessage{}})
				}
			}
			switch c.server {
			case "abort":
				srv.Hook = func(s *simredis.Session, argv []string) *simredis.Reply {
					if strings.ToUpper(argv[0]) == "EXEC" && !aborted {
						aborted = true
						// behave like a WATCH abort: discard the queue and answer nil
						srv.AbortTxn(s)
						r := simredis.NilArr()
						return &r
					}
					return nil
				}
			case "drop":
				dropped := false
				n.Faults = func(cn *simnet.Conn, argv []string) bool {
					if !dropped && strings.ToUpper(argv[0]) == "EXEC" {
						dropped = true
						return true
					}
					return false
				}
				n.FaultMenu = []int{simnet.FaultDropBefore, simnet.FaultDropAfter}
			}
		})
		if e.err != nil {
			x.Fail("client setup failed", "%v", e.err)
			return
		}
		var obs []*c09obs
		finished := 0
		cctx, cancel := context.WithCancel(context.Background())
		needCancel := false
		doOp := func(who, op string) *c09obs {
			o := &c09obs{who: who, op: op}
			b := e.client.B()
			add := func(r RedisResult) {
				s, err := r.ToString()
				if err != nil && o.err == nil {
					o.err = err
				}
				o.vals = append(o.vals, s)
			}
			switch op {
			case "get":
				add(e.client.DoCache(context.Background(), b.Get().Key("k").Cache(), time.Hour))
			case "getc":
				add(e.client.DoCache(cctx, b.Get().Key("k").Cache(), time.Hour))
			case "get2":
				add(e.client.DoCache(context.Background(), b.Get().Key("k2").Cache(), time.Hour))
			case "multi":
				for _, r := range e.client.DoMultiCache(context.Background(), CT(b.Get().Key("k").Cache(), time.Hour), CT(b.Get().Key("k2").Cache(), time.Hour)) {
					add(r)
				}
			case "mget":
				arr, err := e.client.DoCache(context.Background(), b.Mget().Key("k", "k2").Cache(), time.Hour).ToArray()
				o.err = err
				for i := range arr {
					s, _ := arr[i].ToString()
					o.vals = append(o.vals, s)
				}
			}
			return o
		}
		run := func(who string, ops []string) {
			for _, op := range ops {
				o := doOp(who, op)
				// a call racing with the teardown of the broken connection may still fail: the later reader tries again
				for o.err != nil && who == "later" && c.server != "err" && o.tries < 3 {
					t := o.tries + 1
					o = doOp(who, op)
					o.tries = t
				}
				obs = append(obs, o)
			}
		}
		for ri, ops := range c.readers {
			ri, ops := ri, ops
			for _, op := range ops {
				if op == "getc" {
					needCancel = true
				}
			}
			vsched.GoNamed(fmt.Sprintf("r%d", ri), func() {
				defer func() { finished++ }()
				run(fmt.Sprintf("r%d", ri), ops)
			})
		}
		if needCancel {
			vsched.GoNamed("canceller", func() { cancel() })
		}
		if len(c.later) > 0 {
			vsched.GoNamed("later", func() {
				vsched.Point("gate-later", func() bool { return finished >= len(c.readers) })
				run("later", c.later)
			})
		}
		if x.Run() != vsched.Quiescent {
			return
		}
		// ---- oracle
		reads := func(key string) int { // how many reads of key did the server execute
			n := 0
			for _, l := range e.srv.Log {
				up := strings.ToUpper(l.Argv[0])
				if (up == "GET" && l.Argv[1] == key) || (up == "MGET" && contains(l.Argv[1:], key)) {
					n++
				}
			}
			return n
		}
		var out []string
		nLaterK := 0
		for _, op := range c.later {
			if op != "get2" {
				nLaterK++
			}
		}
		firstPhaseK, errs := 0, 0
		for _, o := range obs {
			out = append(out, fmt.Sprintf("%s:%s=%v/%s", o.who, o.op, o.vals, vwErrStr(o.err)))
			if o.who != "later" && o.op != "get2" {
				firstPhaseK++
			}
			if o.err != nil {
				errs++
			}
			for i, v := range o.vals {
				want := "v1"
				if (o.op == "multi" || o.op == "mget") && i == 1 || o.op == "get2" {
					want = "w1"
				}
				if o.err == nil && v != want {
					x.Fail("cached read returned a wrong value", "%s %s position %d: got %q want %q; all %v", o.who, o.op, i, v, want, out)
				}
			}
		}
		x.Outcome = fmt.Sprintf("%s reads(k)=%d reads(k2)=%d", strings.Join(out, " "), reads("k"), reads("k2"))
		switch c.server {
		case "ok":
			if needCancel {
				// an abandoned owner ends the generation for everybody who had not joined it yet: at most one read per caller,
				// and callers other than the cancelled one must succeed or report the owner's context error
				if reads("k") > firstPhaseK+nLaterK {
					x.Fail("more server reads than cached read calls", "reads(k)=%d calls=%d; %v", reads("k"), firstPhaseK+nLaterK, out)
				}
				for _, o := range obs {
					if o.err != nil && o.op != "getc" && o.err != context.Canceled && o.err != ErrDoCacheAborted {
						x.Fail("waiter of an abandoned flight got an unexpected error", "%s %s: %v; %v", o.who, o.op, o.err, out)
					}
				}
			} else {
				if reads("k") > 1 || reads("k2") > 1 {
					x.Fail("concurrent cache misses sent more than one request", "server executed %d reads of k and %d of k2 for one flight generation; %v", reads("k"), reads("k2"), out)
				}
				if errs != 0 {
					x.Fail("cached read failed although the server answered", "%v", out)
				}
			}
		case "err", "abort", "drop":
			// every first-phase caller of the failed generation gets an error or (if it started a new generation after the failure) a value;
			// the failure must not be cached: the later reader sends a request again
			for _, o := range obs {
				if o.who == "later" && c.server != "err" && o.err != nil {
					x.Fail("a later call did not recover after a failed flight", "%s %s: %v; %v", o.who, o.op, o.err, out)
				}
				if c.server == "err" && o.op != "get2" && o.err == nil {
					x.Fail("error reply was turned into a value", "%s %s returned %v; %v", o.who, o.op, o.vals, out)
				}
			}
		}
	}
}

func TestVerif_C09(t *testing.T) {
	vrun.Main(t, "C09", func(r *vrun.Run) {
		r.Rule = "all interleavings within the preemption/delay bound of 2-3 concurrent cached reads (DoCache GET / MGET, DoMultiCache) of the same key on one connection with the server answering ok / an error reply / an aborted EXEC / dropping the connection, an owner abandoning its call, and a later reader after the generation ended; server-side request counting; non-trivial = schedule in which a thread blocked"
		cfgs := []c09cfg{
			{name: "lru/ok/get|get", mode: "lru", server: "ok", readers: [][]string{{"get"}, {"get"}}},
			{name: "lru/ok/get|get|get", mode: "lru", server: "ok", readers: [][]string{{"get"}, {"get"}, {"get"}}},
			{name: "lru/ok/multi|get", mode: "lru", server: "ok", readers: [][]string{{"multi"}, {"get"}}},
			{name: "lru/ok/mget|get", mode: "lru", server: "ok", readers: [][]string{{"mget"}, {"get"}}},
			{name: "lru/ok/mget|multi", mode: "lru", server: "ok", readers: [][]string{{"mget"}, {"multi"}}},
			{name: "lru/ok/multi|get2,get", mode: "lru", server: "ok", readers: [][]string{{"multi"}, {"get2", "get"}}},
			{name: "adapter/ok/get|get", mode: "adapter", server: "ok", readers: [][]string{{"get"}, {"get"}}},
			{name: "adapter/ok/multi|mget", mode: "adapter", server: "ok", readers: [][]string{{"multi"}, {"mget"}}},
			{name: "lru/err/get|get+later", mode: "lru", server: "err", readers: [][]string{{"get"}, {"get"}}, later: []string{"get"}},
			{name: "lru/err/multi|get+later", mode: "lru", server: "err", readers: [][]string{{"multi"}, {"get"}}, later: []string{"get"}},
			{name: "adapter/err/get|get+later", mode: "adapter", server: "err", readers: [][]string{{"get"}, {"get"}}, later: []string{"get"}},
			{name: "lru/abort/get|get+later", mode: "lru", server: "abort", readers: [][]string{{"get"}, {"get"}}, later: []string{"get"}},
			{name: "lru/abort/mget|get+later", mode: "lru", server: "abort", readers: [][]string{{"mget"}, {"get"}}, later: []string{"get"}},
			{name: "lru/drop/get|get+later", mode: "lru", server: "drop", readers: [][]string{{"get"}, {"get"}}, later: []string{"get"}},
			{name: "adapter/drop/multi|get+later", mode: "adapter", server: "drop", readers: [][]string{{"multi"}, {"get"}}, later: []string{"get"}},
			{name: "lru/ok/getc|get+later", mode: "lru", server: "ok", readers: [][]string{{"getc"}, {"get"}}, later: []string{"get"}},
			{name: "adapter/ok/getc|get+later", mode: "adapter", server: "ok", readers: [][]string{{"getc"}, {"get"}}, later: []string{"get"}},
		}
		for ci, c := range cfgs {
			dev, pre := 0, 2
			if c.server == "drop" {
				dev, pre = 1, vrun.Pick(r, 1, 2) // teardown of a broken connection is long: one preemption less in the quick tier
			}
			if len(c.readers) > 2 {
				pre = vrun.Pick(r, 1, 2)
			}
			vexp.Run(r, vexp.Prog{Name: c.name, Delay: vrun.Pick(r, 1, 2), Budget: vsched.Budget{MaxPreempt: pre, MaxDev: dev}, Opts: vsched.Options{Horizon: 8000}, Body: c09body(c), Seconds: r.Remaining() / float64(len(cfgs)-ci)})
		}
		r.Assume("fake server counts executed reads; a WATCH-style abort is modelled as EXEC answering nil after discarding the queue; connection drop before/after executing EXEC")
	})
}
