//go:build verif

package rueidis

import (
	"context"
	"fmt"
	"strings"
	"testing"
	"time"

	"github.com/redis/rueidis/vshim/simnet"
	"github.com/redis/rueidis/vshim/simredis"
	"github.com/redis/rueidis/vshim/vexp"
	"github.com/redis/rueidis/vshim/vrun"
	"github.com/redis/rueidis/vshim/vsched"
)

// readers: get (DoCache GET k) | getc (same, with a context cancelled by another thread) | mget (DoCache MGET k k2)
// | multi (DoMultiCache GET k, GET k2) | get2 (DoCache GET k2)
// server behaviour for GET k: ok | err (k holds a list: WRONGTYPE) | abort (EXEC returns nil once) | drop (connection dies when the read is executed)
type c09cfg struct {
	name    string
	mode    string // lru | adapter
	server  string
	readers [][]string
	later   []string // operations of one more reader that starts after all others finished
	seq     bool     // readers run one after the other (reach partially cached states)
	slow    bool     // the reply of the first read of k is withheld for 10ms; the other readers start once it is on the wire
}

// c09queuedMGet reports whether the transaction queued on s contains an MGET (the partial re-fetch of a cached MGET).
func c09queuedMGet(s *simredis.Session) bool {
	for i := len(s.Received) - 1; i >= 0; i-- {
		up := strings.ToUpper(s.Received[i][0])
		if up == "MULTI" {
			return false
		}
		if up == "MGET" {
			return true
		}
	}
	return false
}

// c09store counts Set calls per cached key so that the oracle can tell whether an earlier flight had already
// been completed (its reply stored) when the server executed another read of the same command.
type c09store struct {
	c06map
	sets map[string]int
}

func (c *c09store) Set(k string, v RedisMessage) {
	if strings.HasPrefix(k, "k2") {
		c.sets["k2"]++
	} else {
		c.sets["k"]++
	}
	c.c06map.Set(k, v)
}

type c09obs struct {
	who, op string
	vals    []string
	err     error
	tries   int
}

func c09body(c c09cfg) func(x *vsched.Exec) {
	return func(x *vsched.Exec) {
		aborted := false
		firstSent := false
		var store *c09store
		overlap := ""
		e := vwNew(func(o *ClientOption, srv *simredis.Server, n *simnet.Net) {
			srv.Do("SET", "k", "v1")
			srv.Do("SET", "k2", "w1")
			if c.server == "err" {
				srv.Do("DEL", "k")
				srv.Do("RPUSH", "k", "x")
			}
			if c.mode == "adapter" {
				o.NewCacheStoreFn = func(CacheStoreOption) CacheStore {
					store = &c09store{c06map: c06map{m: map[string]RedisMessage{}}, sets: map[string]int{}}
					return NewSimpleCacheAdapter(store)
				}
				if c.server == "ok" {
					// the adapter looks the store up under a read lock and creates the flight under a write lock taken
					// afterwards: a caller that looked before a flight existed may create its own once that flight has
					// completed. Such a request is not concurrent with the first one; what the property forbids is a read
					// executed while an earlier read of the same command is still awaiting its reply.
					srv.AfterExec = func(ss *simredis.Session, argv []string, r simredis.Reply) {
						if strings.ToUpper(argv[0]) != "EXEC" {
							return
						}
						for _, key := range []string{"k", "k2"} {
							n := 0
							for _, l := range srv.Log {
								up := strings.ToUpper(l.Argv[0])
								if (up == "GET" && l.Argv[1] == key) || (up == "MGET" && contains(l.Argv[1:], key)) {
									n++
								}
							}
							if n >= 2 && store.sets[key] < n-1 && overlap == "" {
								overlap = fmt.Sprintf("read %d of %s executed while only %d earlier replies had been stored", n, key, store.sets[key])
							}
						}
					}
				}
			}
			if c.slow {
				done := false
				n.Script = func(cn *simnet.Conn, argv []string) int {
					if !done && strings.ToUpper(argv[0]) == "EXEC" {
						done = true
						firstSent = true
						vsched.AddTimer(10*time.Millisecond, func() { cn.Release() })
						return simnet.FaultStall
					}
					return simnet.FaultNone
				}
			}
			switch c.server {
			case "abort":
				srv.Hook = func(s *simredis.Session, argv []string) *simredis.Reply {
					if strings.ToUpper(argv[0]) == "EXEC" && !aborted && (!c.seq || c09queuedMGet(s)) {
						aborted = true
						// behave like a WATCH abort: discard the queue and answer nil
						srv.AbortTxn(s)
						r := simredis.NilArr()
						return &r
					}
					return nil
				}
			case "drop":
				dropped := false
				n.Faults = func(cn *simnet.Conn, argv []string) bool {
					if !dropped && strings.ToUpper(argv[0]) == "EXEC" {
						dropped = true
						return true
					}
					return false
				}
				n.FaultMenu = []int{simnet.FaultDropBefore, simnet.FaultDropAfter}
			}
		})
		if e.err != nil {
			x.Fail("client setup failed", "%v", e.err)
			return
		}
		var obs []*c09obs
		finished := 0
		cctx, cancel := context.WithCancel(context.Background())
		needCancel := false
		doOp := func(who, op string) *c09obs {
			o := &c09obs{who: who, op: op}
			b := e.client.B()
			add := func(r RedisResult) {
				s, err := r.ToString()
				if err != nil && o.err == nil {
					o.err = err
				}
				o.vals = append(o.vals, s)
			}
			switch op {
			case "get":
				add(e.client.DoCache(context.Background(), b.Get().Key("k").Cache(), time.Hour))
			case "getc":
				add(e.client.DoCache(cctx, b.Get().Key("k").Cache(), time.Hour))
			case "get2":
				add(e.client.DoCache(context.Background(), b.Get().Key("k2").Cache(), time.Hour))
			case "multi":
				for _, r := range e.client.DoMultiCache(context.Background(), CT(b.Get().Key("k").Cache(), time.Hour), CT(b.Get().Key("k2").Cache(), time.Hour)) {
					add(r)
				}
			case "mgetc":
				arr, err := e.client.DoCache(cctx, b.Mget().Key("k", "k2").Cache(), time.Hour).ToArray()
				o.err = err
				for i := range arr {
					s, _ := arr[i].ToString()
					o.vals = append(o.vals, s)
				}
			case "mget":
				arr, err := e.client.DoCache(context.Background(), b.Mget().Key("k", "k2").Cache(), time.Hour).ToArray()
				o.err = err
				for i := range arr {
					s, _ := arr[i].ToString()
					o.vals = append(o.vals, s)
				}
			}
			return o
		}
		run := func(who string, ops []string) {
			for _, op := range ops {
				o := doOp(who, op)
				// a call racing with the teardown of the broken connection may still fail: the later reader tries again
				for o.err != nil && who == "later" && c.server != "err" && o.tries < 3 {
					t := o.tries + 1
					o = doOp(who, op)
					o.tries = t
				}
				obs = append(obs, o)
			}
		}
		for ri, ops := range c.readers {
			ri, ops := ri, ops
			for _, op := range ops {
				if op == "getc" || op == "mgetc" {
					needCancel = true
				}
			}
			vsched.GoNamed(fmt.Sprintf("r%d", ri), func() {
				defer func() { finished++ }()
				if c.seq && ri > 0 {
					vsched.Point("gate-seq", func() bool { return finished >= ri })
				}
				if c.slow && ri > 0 {
					vsched.Point("gate-slow", func() bool { return firstSent })
				}
				run(fmt.Sprintf("r%d", ri), ops)
			})
		}
		if needCancel {
			vsched.GoNamed("canceller", func() {
				if c.slow {
					vsched.Point("gate-slow", func() bool { return firstSent })
				}
				cancel()
			})
		}
		if len(c.later) > 0 {
			vsched.GoNamed("later", func() {
				vsched.Point("gate-later", func() bool { return finished >= len(c.readers) })
				run("later", c.later)
			})
		}
		if x.Run() != vsched.Quiescent {
			return
		}
		// ---- oracle
		reads := func(key string) int { // how many reads of key did the server execute
			n := 0
			for _, l := range e.srv.Log {
				up := strings.ToUpper(l.Argv[0])
				if (up == "GET" && l.Argv[1] == key) || (up == "MGET" && contains(l.Argv[1:], key)) {
					n++
				}
			}
			return n
		}
		var out []string
		nLaterK := 0
		for _, op := range c.later {
			if op != "get2" {
				nLaterK++
			}
		}
		firstPhaseK, errs := 0, 0
		for _, o := range obs {
			out = append(out, fmt.Sprintf("%s:%s=%v/%s", o.who, o.op, o.vals, vwErrStr(o.err)))
			if o.who != "later" && o.op != "get2" {
				firstPhaseK++
			}
			if o.err != nil {
				errs++
			}
			for i, v := range o.vals {
				want := "v1"
				if (o.op == "multi" || o.op == "mget") && i == 1 || o.op == "get2" {
					want = "w1"
				}
				if o.err == nil && v != want {
					x.Fail("cached read returned a wrong value", "%s %s position %d: got %q want %q; all %v", o.who, o.op, i, v, want, out)
				}
			}
		}
		x.Outcome = fmt.Sprintf("%s reads(k)=%d reads(k2)=%d", strings.Join(out, " "), reads("k"), reads("k2"))
		if c.slow {
			for _, o := range obs {
				if (o.op == "get") && o.err != nil {
					x.Fail("waiter of a flight that was never abandoned did not get its reply", "%s %s: %v; the read of k is owned by a call with a background context; %v", o.who, o.op, o.err, out)
				}
			}
		}
		if c.seq && (c.server == "abort") {
			for _, o := range obs {
				if o.who == "later" && o.err != nil {
					x.Fail("a later call did not recover after a failed flight", "%s %s: %v; %v", o.who, o.op, o.err, out)
				}
			}
		}
		switch c.server {
		case "ok":
			if needCancel && c.slow {
				// covered above
			} else if needCancel {
				// an abandoned owner ends the generation for everybody who had not joined it yet: at most one read per caller,
				// and callers other than the cancelled one must succeed or report the owner's context error
				if reads("k") > firstPhaseK+nLaterK {
					x.Fail("more server reads than cached read calls", "reads(k)=%d calls=%d; %v", reads("k"), firstPhaseK+nLaterK, out)
				}
				for _, o := range obs {
					if o.err != nil && o.op != "getc" && o.err != context.Canceled && o.err != ErrDoCacheAborted {
						x.Fail("waiter of an abandoned flight got an unexpected error", "%s %s: %v; %v", o.who, o.op, o.err, out)
					}
				}
			} else {
				if c.mode == "adapter" && overlap == "" {
					// sequential re-fetches after a completed flight (see the setup comment); bounded by one per caller
					if reads("k") > firstPhaseK+nLaterK {
						x.Fail("more server reads than cached read calls", "reads(k)=%d calls=%d; %v", reads("k"), firstPhaseK+nLaterK, out)
					}
				} else if reads("k") > 1 || reads("k2") > 1 {
					x.Fail("concurrent cache misses sent more than one request", "server executed %d reads of k and %d of k2 for one flight generation; %s; %v", reads("k"), reads("k2"), overlap, out)
				}
				if errs != 0 {
					x.Fail("cached read failed although the server answered", "%v", out)
				}
			}
		case "err", "abort", "drop":
			// every first-phase caller of the failed generation gets an error or (if it started a new generation after the failure) a value;
			// the failure must not be cached: the later reader sends a request again
			for _, o := range obs {
				if o.who == "later" && c.server != "err" && o.err != nil {
					x.Fail("a later call did not recover after a failed flight", "%s %s: %v; %v", o.who, o.op, o.err, out)
				}
				if c.server == "err" && o.op != "get2" && o.err == nil {
					x.Fail("error reply was turned into a value", "%s %s returned %v; %v", o.who, o.op, o.vals, out)
				}
			}
		}
	}
}

func TestVerif_C09(t *testing.T) {
	vrun.Main(t, "C09", func(r *vrun.Run) {
		r.Rule = "all interleavings within the preemption/delay bound of 2-3 concurrent cached reads (DoCache GET / MGET, DoMultiCache) of the same key on one connection with the server answering ok / an error reply / an aborted EXEC / dropping the connection, an owner abandoning its call, and a later reader after the generation ended; server-side request counting; non-trivial = schedule in which a thread blocked"
		cfgs := []c09cfg{
			{name: "lru/ok/get|get", mode: "lru", server: "ok", readers: [][]string{{"get"}, {"get"}}},
			{name: "lru/ok/get|get|get", mode: "lru", server: "ok", readers: [][]string{{"get"}, {"get"}, {"get"}}},
			{name: "lru/ok/multi|get", mode: "lru", server: "ok", readers: [][]string{{"multi"}, {"get"}}},
			{name: "lru/ok/mget|get", mode: "lru", server: "ok", readers: [][]string{{"mget"}, {"get"}}},
			{name: "lru/ok/mget|multi", mode: "lru", server: "ok", readers: [][]string{{"mget"}, {"multi"}}},
			{name: "lru/ok/multi|get2,get", mode: "lru", server: "ok", readers: [][]string{{"multi"}, {"get2", "get"}}},
			{name: "adapter/ok/get|get", mode: "adapter", server: "ok", readers: [][]string{{"get"}, {"get"}}},
			{name: "adapter/ok/multi|mget", mode: "adapter", server: "ok", readers: [][]string{{"multi"}, {"mget"}}},
			{name: "lru/err/get|get+later", mode: "lru", server: "err", readers: [][]string{{"get"}, {"get"}}, later: []string{"get"}},
			{name: "lru/err/multi|get+later", mode: "lru", server: "err", readers: [][]string{{"multi"}, {"get"}}, later: []string{"get"}},
			{name: "adapter/err/get|get+later", mode: "adapter", server: "err", readers: [][]string{{"get"}, {"get"}}, later: []string{"get"}},
			{name: "lru/abort/get|get+later", mode: "lru", server: "abort", readers: [][]string{{"get"}, {"get"}}, later: []string{"get"}},
			{name: "lru/abort/mget|get+later", mode: "lru", server: "abort", readers: [][]string{{"mget"}, {"get"}}, later: []string{"get"}},
			{name: "lru/drop/get|get+later", mode: "lru", server: "drop", readers: [][]string{{"get"}, {"get"}}, later: []string{"get"}},
			{name: "adapter/drop/multi|get+later", mode: "adapter", server: "drop", readers: [][]string{{"multi"}, {"get"}}, later: []string{"get"}},
			{name: "lru/abort/seq/get,mget+later(get2)", mode: "lru", server: "abort", readers: [][]string{{"get"}, {"mget"}}, later: []string{"get2", "get"}, seq: true},
			{name: "adapter/abort/seq/get,mget+later(get2)", mode: "adapter", server: "abort", readers: [][]string{{"get"}, {"mget"}}, later: []string{"get2", "get"}, seq: true},
			{name: "lru/slow/get|get|mgetc", mode: "lru", server: "ok", readers: [][]string{{"get"}, {"get"}, {"mgetc"}}, slow: true},
			{name: "lru/ok/getc|get+later", mode: "lru", server: "ok", readers: [][]string{{"getc"}, {"get"}}, later: []string{"get"}},
			{name: "adapter/ok/getc|get+later", mode: "adapter", server: "ok", readers: [][]string{{"getc"}, {"get"}}, later: []string{"get"}},
		}
		for ci, c := range cfgs {
			dev, pre := 0, 2
			if c.server == "drop" {
				dev, pre = 1, vrun.Pick(r, 1, 2) // teardown of a broken connection is long: one preemption less in the quick tier
			}
			if len(c.readers) > 2 {
				pre = vrun.Pick(r, 1, 2)
			}
			vexp.Run(r, vexp.Prog{Name: c.name, Delay: vrun.Pick(r, 1, 2), Budget: vsched.Budget{MaxPreempt: pre, MaxDev: dev}, Opts: vsched.Options{Horizon: 8000}, Body: c09body(c), Seconds: r.Remaining() / float64(len(cfgs)-ci)})
		}
		r.Assume("fake server counts executed reads; a WATCH-style abort is modelled as EXEC answering nil after discarding the queue; connection drop before/after executing EXEC")
	})
}
