//go:build verif

package rueidis

import (
	"context"
	"fmt"
	"strings"
	"testing"
	"time"

	"github.com/redis/rueidis/vshim/simnet"
	"github.com/redis/rueidis/vshim/simredis"
	"github.com/redis/rueidis/vshim/vexp"
	"github.com/redis/rueidis/vshim/vrun"
	"github.com/redis/rueidis/vshim/vsched"
)

type c07cfg struct {
	ttl     time.Duration // client TTL
	pttl    int64         // server PTTL in ms at execution time; -1 = key without expiry, -2 = key missing
	static  bool
	latency time.Duration // virtual delay between request start and reply arrival
	api     string        // get | multi | mget | adapter
	probe   time.Duration // second read at expected expiry + probe
}

func (c c07cfg) name() string {
	return fmt.Sprintf("%s/ttl=%v/pttl=%d/static=%v/lat=%v/probe=%+d", c.api, c.ttl, c.pttl, c.static, c.latency, c.probe.Milliseconds())
}

func c07body(c c07cfg) func(x *vsched.Exec) {
	return func(x *vsched.Exec) {
		e := vwNew(func(o *ClientOption, srv *simredis.Server, n *simnet.Net) {
			if c.pttl == -1 {
				srv.Do("SET", "k", "v1")
			}
			srv.Do("SET", "k2", "w1")
			if c.api == "adapter" {
				o.NewCacheStoreFn = func(CacheStoreOption) CacheStore {
					return NewSimpleCacheAdapter(&c06map{m: map[string]RedisMessage{}})
				}
			}
			if c.latency > 0 {
				stalled := false
				n.Script = func(cn *simnet.Conn, argv []string) int {
					up := strings.ToUpper(argv[0])
					if stalled || !(up == "EXEC" || (c.static && c.api != "mget" && up == "GET")) {
						return simnet.FaultNone
					}
					stalled = true
					vsched.AddTimer(c.latency, func() { cn.Release() })
					return simnet.FaultStall
				}
			}
		})
		if e.err != nil {
			x.Fail("client setup failed", "%v", e.err)
			return
		}
		type obs struct {
			hit        bool
			pxat, pttl int64
			ttl        int64
			val        string
			at         time.Duration
		}
		read := func() obs {
			b := e.client.B()
			ctx := context.Background()
			get := func(k string) Cacheable {
				if c.static {
					return b.Get().Key(k).Cache().ToStaticTTL()
				}
				return b.Get().Key(k).Cache()
			}
			var m RedisMessage
			switch c.api {
			case "get", "adapter":
				m, _ = e.client.DoCache(ctx, get("k"), c.ttl).ToMessage()
			case "multi":
				rs := e.client.DoMultiCache(ctx, CT(get("k"), c.ttl), CT(get("k2"), c.ttl))
				m, _ = rs[0].ToMessage()
			case "mget":
				mg := b.Mget().Key("k", "k2").Cache()
				if c.static {
					mg = mg.ToStaticTTL()
				}
				arr, _ := e.client.DoCache(ctx, mg, c.ttl).ToArray()
				if len(arr) > 0 {
					m = arr[0]
				}
			}
			s, _ := m.ToString()
			return obs{hit: m.IsCacheHit(), pxat: m.CachePXAT(), pttl: m.CachePTTL(), ttl: m.CacheTTL(), val: s, at: x.Elapsed()}
		}
		var first, second obs
		var start, arrival time.Duration
		var expiry time.Duration
		vsched.GoNamed("caller", func() {
			time.Sleep(7 * time.Millisecond) // not at the epoch boundary
			start = x.Elapsed()
			if c.pttl >= 0 {
				e.srv.Do("SET", "k", "v1", "PX", fmt.Sprint(c.pttl)) // the key's PTTL is c.pttl at the instant the read is executed
			}
			first = read()
			arrival = x.Elapsed()
			expiry = start + c.ttl
			static := c.static && c.api != "mget" // documented: MGET takes the multi-key path before the static-TTL tag is consulted
			if !static && c.pttl >= 0 {
				if sx := arrival + time.Duration(c.pttl)*time.Millisecond; sx < expiry {
					expiry = sx
				}
			}
			if wait := expiry + c.probe - x.Elapsed(); wait > 0 {
				time.Sleep(wait)
			}
			second = read()
		})
		if x.Run() != vsched.Quiescent {
			return
		}
		epochMs := vsched.Epoch / 1e6
		wantPXAT := epochMs + expiry.Milliseconds()
		x.Outcome = fmt.Sprintf("first(hit=%v pxat=+%d) second(hit=%v at=+%d) expiry=+%d", first.hit, first.pxat-epochMs, second.hit, second.at.Milliseconds(), expiry.Milliseconds())
		if first.hit {
			x.Fail("first read of a cold cache reported a hit", "%s", x.Outcome)
		}
		if arrival-start != c.latency {
			x.Fail("harness: latency not as configured", "start %v arrival %v", start, arrival)
		}
		if c.pttl == -2 {
			return // missing key: nil reply, nothing to check beyond not crashing
		}
		if first.pxat != wantPXAT {
			x.Fail("CachePXAT differs from min(start+ttl, arrival+pttl)", "%s: CachePXAT=+%dms want +%dms (start +%v, arrival +%v, ttl %v, server pttl %d, static %v)", c.name(), first.pxat-epochMs, wantPXAT-epochMs, start, arrival, c.ttl, c.pttl, c.static)
		}
		if first.pttl != wantPXAT-(epochMs+arrival.Milliseconds()) && first.pttl != 0 {
			x.Fail("CachePTTL inconsistent with CachePXAT", "CachePTTL=%d at +%v, pxat +%d", first.pttl, arrival, first.pxat-epochMs)
		}
		wantHit := second.at < expiry
		if second.hit != wantHit {
			x.Fail("cache hit/miss at the expiry boundary is wrong", "%s: second read at +%v, expiry +%v: hit=%v want %v", c.name(), second.at, expiry, second.hit, wantHit)
		}
		if second.hit && second.pxat != wantPXAT {
			x.Fail("hit reports a different CachePXAT than the original reply", "hit pxat +%d, original +%d", second.pxat-epochMs, wantPXAT-epochMs)
		}
	}
}

// ---- batches with per-command TTLs and mixed cache states

type c07bcfg struct {
	adapter bool
	warm    int   // bit i: key i was read (and cached, TTL 10s) 20ms before the batch
	short   int   // bit i: command i of the batch carries the short client TTL (100ms), otherwise 10s
	spttl   int64 // server PTTL of every key when the batch is executed (-1: no expiry)
	dup     bool  // the batch ends with a duplicate of its first command, carrying the opposite TTL
}

func (c c07bcfg) name() string {
	return fmt.Sprintf("batch/adapter=%v/warm=%03b/short=%03b/spttl=%d/dup=%v", c.adapter, c.warm, c.short, c.spttl, c.dup)
}

func c07batch(c c07bcfg) func(x *vsched.Exec) {
	return func(x *vsched.Exec) {
		keys := []string{"k0", "k1", "k2"}
		e := vwNew(func(o *ClientOption, srv *simredis.Server, n *simnet.Net) {
			if c.adapter {
				o.NewCacheStoreFn = func(CacheStoreOption) CacheStore {
					return NewSimpleCacheAdapter(&c06map{m: map[string]RedisMessage{}})
				}
			}
		})
		if e.err != nil {
			x.Fail("client setup failed", "%v", e.err)
			return
		}
		const long, short = 10 * time.Second, 100 * time.Millisecond
		epochMs := vsched.Epoch / 1e6
		ttlOf := func(i int) time.Duration {
			if c.short>>uint(i)&1 == 1 {
				return short
			}
			return long
		}
		type obs struct {
			hit  bool
			pxat int64
		}
		vsched.GoNamed("caller", func() {
			ctx := context.Background()
			time.Sleep(7 * time.Millisecond)
			for _, k := range keys {
				if c.spttl >= 0 {
					e.srv.Do("SET", k, "v-"+k, "PX", fmt.Sprint(c.spttl+20))
				} else {
					e.srv.Do("SET", k, "v-"+k)
				}
			}
			want := make([]int64, len(keys)) // expected expiry (ms after the epoch) per key
			warmStart := x.Elapsed()
			for i, k := range keys {
				if c.warm>>uint(i)&1 == 1 {
					e.client.DoCache(ctx, e.client.B().Get().Key(k).Cache(), long)
					want[i] = (warmStart + long).Milliseconds()
					if c.spttl >= 0 && warmStart.Milliseconds()+c.spttl+20 < want[i] {
						want[i] = warmStart.Milliseconds() + c.spttl + 20
					}
				}
			}
			time.Sleep(20*time.Millisecond - (x.Elapsed() - warmStart))
			start := x.Elapsed()
			var batch []CacheableTTL
			idx := []int{0, 1, 2}
			for i, k := range keys {
				batch = append(batch, CT(e.client.B().Get().Key(k).Cache(), ttlOf(i)))
			}
			if c.dup {
				// same command again with the other TTL: it joins the first one's entry (hit or pending), whose expiry stands
				other := long
				if ttlOf(0) == long {
					other = short
				}
				batch = append(batch, CT(e.client.B().Get().Key(keys[0]).Cache(), other))
				idx = append(idx, 0)
			}
			rs := e.client.DoMultiCache(ctx, batch...)
			for i := range keys {
				if c.warm>>uint(i)&1 == 0 {
					want[i] = (start + ttlOf(i)).Milliseconds()
					if c.spttl >= 0 && start.Milliseconds()+c.spttl < want[i] {
						want[i] = start.Milliseconds() + c.spttl
					}
				}
			}
			var out []string
			for p, r := range rs {
				i := idx[p]
				m, err := r.ToMessage()
				if err != nil {
					x.Fail("batch read failed", "position %d: %v", p, err)
					return
				}
				if v, _ := m.ToString(); v != "v-"+keys[i] {
					x.Fail("batch read returned a wrong value", "position %d (%s): %q", p, keys[i], v)
				}
				wasWarm := c.warm>>uint(i)&1 == 1
				if m.IsCacheHit() != wasWarm && p < len(keys) {
					x.Fail("hit flag of a batch position is wrong", "%s position %d: hit=%v, key cached before=%v", c.name(), p, m.IsCacheHit(), wasWarm)
				}
				if got := m.CachePXAT() - epochMs; got != want[i] {
					x.Fail("CachePXAT of a batch position differs from min(start+its own ttl, arrival+pttl)", "%s position %d (%s): CachePXAT=+%dms want +%dms (batch start +%v, client ttl %v, cached before=%v)", c.name(), p, keys[i], got, want[i], start, ttlOf(i), wasWarm)
				}
				out = append(out, fmt.Sprintf("%s:hit=%v,+%d", keys[i], m.IsCacheHit(), m.CachePXAT()-epochMs))
			}
			// probe each key one millisecond before and at its expected expiry (only expiries that are near)
			for i, k := range keys {
				if want[i] > (start + time.Second).Milliseconds() {
					continue
				}
				for _, d := range []int64{-1, 0} {
					at := time.Duration(want[i]+d) * time.Millisecond
					if w := at - x.Elapsed(); w > 0 {
						time.Sleep(w)
					}
					if x.Elapsed() != at {
						continue // an earlier probe already passed this instant
					}
					m, _ := e.client.DoCache(ctx, e.client.B().Get().Key(k).Cache(), long).ToMessage()
					if m.IsCacheHit() != (d < 0) {
						x.Fail("cache hit/miss at the expiry boundary is wrong", "%s: %s read at +%v, expiry +%dms: hit=%v", c.name(), k, at, want[i], m.IsCacheHit())
					}
					if d == 0 {
						want[i] = 1 << 60
					}
				}
			}
			x.Outcome = strings.Join(out, " ")
		})
		x.Run()
	}
}

func TestVerif_C07(t *testing.T) {
	vrun.Main(t, "C07", func(r *vrun.Run) {
		r.Rule = "full product of client TTL {50ms,100ms,1h; thorough adds 1ms,2ms,1s} x server PTTL {none,1,49,50,51,100,150,missing key; thorough adds 2,99,101,1000,3600001} x static-TTL flag x reply latency {0,10ms,60ms; thorough adds 1ms,49ms,200ms} x API {DoCache, DoMultiCache, MGET, adapter store} x second read at expiry-1ms / expiry / expiry+1ms (thorough also +-2ms) on the virtual clock; one deterministic execution per case; plus DoMultiCache batches of 3 keys (+ optional duplicate) x every subset already cached x every assignment of {100ms,10s} client TTLs to the positions x server PTTL {none,60ms,5s} x {LRU, adapter}, each position checked against its own TTL and probed at expiry-1ms / expiry; oracle: CachePXAT = min(start+ttl, arrival+pttl unless static), hit iff now < expiry; non-trivial = server PTTL shorter than client TTL"
		ms := time.Millisecond
		n := 0
		for _, api := range []string{"get", "multi", "mget", "adapter"} {
			for _, ttl := range vrun.Pick(r, []time.Duration{50 * ms, 100 * ms, time.Hour}, []time.Duration{ms, 2 * ms, 50 * ms, 100 * ms, time.Second, time.Hour}) {
				for _, pttl := range vrun.Pick(r, []int64{-1, 1, 49, 50, 51, 100, 150, -2}, []int64{-1, 1, 2, 49, 50, 51, 99, 100, 101, 150, 1000, 3600001, -2}) {
					for _, static := range []bool{false, true} {
						for _, lat := range vrun.Pick(r, []time.Duration{0, 10 * ms, 60 * ms}, []time.Duration{0, ms, 10 * ms, 49 * ms, 60 * ms, 200 * ms}) {
							for _, probe := range vrun.Pick(r, []time.Duration{-ms, 0, ms}, []time.Duration{-2 * ms, -ms, 0, ms, 2 * ms}) {
								n++
								if !r.Mine(n) {
									continue
								}
								if ttl == time.Hour && pttl < 0 && probe != 0 {
									continue
								}
								if r.TimeUp() {
									return
								}
								c := c07cfg{ttl: ttl, pttl: pttl, static: static, latency: lat, api: api, probe: probe}
								vexp.Run(r, vexp.Prog{Name: c.name(), NoShard: true, Delay: -1, Budget: vsched.Budget{MaxPreempt: 0}, Opts: vsched.Options{Horizon: 20000, MaxVirtual: 3 * time.Hour}, Body: c07body(c)})
							}
						}
					}
				}
			}
		}
		nb := 0
		for _, adapter := range []bool{false, true} {
			for warm := 0; warm < 8; warm++ {
				for short := 0; short < 8; short++ {
					for _, spttl := range []int64{-1, 60, 5000} {
						for _, dup := range []bool{false, true} {
							nb++
							if !r.Mine(n+nb) || r.TimeUp() {
								continue
							}
							c := c07bcfg{adapter: adapter, warm: warm, short: short, spttl: spttl, dup: dup}
							vexp.Run(r, vexp.Prog{Name: c.name(), NoShard: true, Delay: -1, Budget: vsched.Budget{MaxPreempt: 0}, Opts: vsched.Options{Horizon: 40000, MaxVirtual: 3 * time.Hour}, Body: c07batch(c)})
						}
					}
				}
			}
		}
		r.Bounds["batch_cases"] = nb
		delete(r.Bounds, "programs") // one entry per case would bloat the evidence
		r.Bounds["cases"] = n
		r.Assume("server PTTL is the key's PTTL when the server executes the read; reply latency is modelled by withholding the reply for the given virtual time")
	})
}
