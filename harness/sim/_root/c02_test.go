//go:build verif

package rueidis

import (
	"context"
	"fmt"
	"strings"
	"testing"

	"github.com/redis/rueidis/internal/cmds"
	"github.com/redis/rueidis/vshim/vexp"
	"github.com/redis/rueidis/vshim/vrun"
	"github.com/redis/rueidis/vshim/vsched"
)

type c02cfg struct {
	queue   string // ring | flow
	factor  int
	putters []int // ops per putter; negative = PutMulti of that many commands (one op)
	wrap    bool
	cancel  bool // flow buffer: one putter uses a context cancelled by an extra thread
	// seq: if set, putter i performs seq[i] in order (1 = PutOne, -k = PutMulti of k commands); putters is then ignored.
	// Mixed sequences make a slot that carried a batch be reused by a single command and vice versa.
	seq [][]int
}

func (c c02cfg) name() string {
	if c.seq != nil {
		return fmt.Sprintf("%s/f%d/seq%v/cancel=%v", c.queue, c.factor, c.seq, c.cancel)
	}
	return fmt.Sprintf("%s/f%d/%v/wrap=%v/cancel=%v", c.queue, c.factor, c.putters, c.wrap, c.cancel)
}

func c02tag(c Completed) string { return c.Commands()[1] }

func c02body(c c02cfg) func(x *vsched.Exec) {
	return func(x *vsched.Exec) {
		var q queue
		var fb *flowBuffer
		if c.queue == "ring" {
			rg := newRing(c.factor)
			if c.wrap {
				rg.write, rg.read1, rg.read2 = ^uint32(0)-1, ^uint32(0)-1, ^uint32(0)-1
			}
			q = rg
		} else {
			fb = newFlowBuffer(c.factor)
			q = fb
		}
		clock := 0
		tick := func() int { clock++; return clock }
		type rec struct {
			tag       string
			call, ret int
			err       error
			got       string
			n         int // 1 = PutOne, k > 1 (or batch of 1 marked by multi) = PutMulti of k commands
			multi     bool
		}
		var recs []*rec
		var wlog, rlog []string
		total := 0
		cctx, cancel := context.WithCancel(context.Background())
		cancelled := 0
		scripts := c.seq
		if scripts == nil {
			for _, n := range c.putters {
				if n < 0 {
					scripts = append(scripts, []int{n})
				} else {
					one := make([]int, n)
					for i := range one {
						one[i] = 1
					}
					scripts = append(scripts, one)
				}
			}
		}
		for pi, script := range scripts {
			pi, script := pi, script
			ops := len(script)
			total += ops
			vsched.GoNamed(fmt.Sprintf("put%d", pi), func() {
				for j := 0; j < ops; j++ {
					n := script[j]
					ctx := context.Background()
					if c.cancel && pi == 0 {
						ctx = cctx
					}
					rc := &rec{tag: fmt.Sprintf("p%d.%d", pi, j), n: 1}
					if n < 0 {
						rc.n, rc.multi = -n, true
					}
					recs = append(recs, rc)
					var ch chan RedisResult
					var resps []RedisResult
					rc.call = tick()
					if n < 0 {
						multi := make([]Completed, -n)
						for k := range multi {
							multi[k] = cmds.NewCompleted([]string{"T", fmt.Sprintf("%s.%d", rc.tag, k)})
						}
						resps = make([]RedisResult, -n)
						ch, rc.err = q.PutMulti(ctx, multi, resps)
					} else {
						ch, rc.err = q.PutOne(ctx, cmds.NewCompleted([]string{"T", rc.tag}))
					}
					rc.ret = tick()
					if rc.err != nil {
						cancelled++
						continue
					}
					res := <-ch
					rc.got, _ = res.ToString()
					if n < 0 {
						var parts []string
						for _, rr := range resps {
							s, _ := rr.ToString()
							parts = append(parts, s)
						}
						rc.got = strings.Join(parts, ",")
					}
				}
			})
		}
		if c.cancel {
			vsched.GoNamed("canceller", func() { cancel() })
		}
		// The writer and reader follow the protocol of pipe._backgroundWrite / _backgroundRead.
		stop := false
		vsched.GoDaemon("writer", func() {
			for !stop {
				one, multi, ch := q.NextWriteCmd()
				if ch == nil {
					one, multi, ch = q.WaitForWrite()
				}
				if multi == nil {
					wlog = append(wlog, c02tag(one))
				} else {
					for _, m := range multi {
						wlog = append(wlog, c02tag(m))
					}
				}
			}
		})
		vsched.GoDaemon("reader", func() {
			for !stop {
				// the reader only asks the queue after a reply arrived, i.e. after the command was written
				vsched.Point("net.read", func() bool { return len(wlog) > len(rlog) })
				one, multi, ch, resps := q.NextResultCh()
				if ch == nil {
					q.FinishResult()
					x.Fail("written command missing from the result queue", "a reply arrived but NextResultCh returned nothing (pipe would panic with a protocol bug); write log %v read log %v", wlog, rlog)
					return
				}
				var last RedisResult
				if multi == nil {
					rlog = append(rlog, c02tag(one))
					last = NewResult(strmsg('+', c02tag(one)), nil)
				} else {
					for k, m := range multi {
						rlog = append(rlog, c02tag(m))
						last = NewResult(strmsg('+', c02tag(m)), nil)
						resps[k] = last
					}
				}
				ch <- last
				q.FinishResult()
			}
		})
		st := x.Run()
		stop = true
		if st != vsched.Quiescent {
			return // deadlock / horizon / panic are reported by vexp
		}
		// ---- oracle
		x.Outcome = strings.Join(wlog, " ")
		seen := map[string]int{}
		for _, t := range wlog {
			seen[t]++
		}
		want := 0
		for _, rc := range recs {
			if rc.err != nil {
				if seen[rc.tag] != 0 {
					x.Fail("cancelled put was handed to the writer", "%s returned %v but was written", rc.tag, rc.err)
				}
				continue
			}
			n := 1
			tags := []string{rc.tag}
			if strings.HasPrefix(rc.got, rc.tag+".") || strings.Contains(rc.got, ",") || (len(c.putters) > 0 && !strings.Contains(rc.got, rc.tag)) {
				// multi (or wrong) result: expected tags are tag.k
			}
			if rc.multi {
				n = rc.n
				tags = tags[:0]
				for k := 0; k < n; k++ {
					tags = append(tags, fmt.Sprintf("%s.%d", rc.tag, k))
				}
			}
			want += n
			for _, t := range tags {
				if seen[t] != 1 {
					x.Fail("command not handed to the writer exactly once", "%s written %d times; write log %v", t, seen[t], wlog)
				}
			}
			if rc.got != strings.Join(tags, ",") {
				x.Fail("reply slot completed for the wrong caller", "%s received result %q; write log %v read log %v", rc.tag, rc.got, wlog, rlog)
			}
		}
		if len(wlog) != want {
			x.Fail("write log has wrong length", "written %v, expected %d commands", wlog, want)
		}
		if strings.Join(wlog, " ") != strings.Join(rlog, " ") {
			x.Fail("reader order differs from writer order", "write log %v read log %v", wlog, rlog)
		}
		// FIFO (linearizable queue): a put that returned before another was called must be written first
		pos := map[string]int{}
		for i, t := range wlog {
			if _, ok := pos[t]; !ok {
				pos[t] = i
			}
		}
		first := func(rc *rec) (int, bool) {
			if p, ok := pos[rc.tag]; ok {
				return p, true
			}
			p, ok := pos[rc.tag+".0"]
			return p, ok
		}
		// Real-time FIFO is only defined while no two outstanding tickets share a slot (callers <= slots):
		// with more callers than slots the ring lets the later ticket of a slot overtake, which reorders
		// only calls that are concurrent at the Do level. Program order of one caller must always hold.
		slots := 2 << (c.factor - 1)
		for _, a := range recs {
			for _, b := range recs {
				sameCaller := strings.Split(a.tag, ".")[0] == strings.Split(b.tag, ".")[0]
				if a.err == nil && b.err == nil && a.ret < b.call && (sameCaller || len(c.putters) <= slots) {
					pa, oka := first(a)
					pb, okb := first(b)
					if oka && okb && pa > pb {
						x.Fail("queue order violated (not FIFO)", "%s returned before %s was called but was written after it: %v", a.tag, b.tag, wlog)
					}
				}
			}
		}
		if fb != nil {
			size := 2 << (c.factor - 1)
			if len(fb.f) != size || len(fb.w) != 0 || len(fb.r) != 0 {
				x.Fail("flow buffer slot leaked", "free=%d w=%d r=%d want free=%d (cancelled puts: %d)", len(fb.f), len(fb.w), len(fb.r), size, cancelled)
			}
		}
	}
}

func TestVerif_C02(t *testing.T) {
	vrun.Main(t, "C02", func(r *vrun.Run) {
		r.Rule = "all interleavings (at sync/atomic/channel operations) of N putter threads, the writer and the reader protocol threads on a real ring / flowBuffer with 2 or 4 slots, within the preemption bound; state = distinct schedule (hash of the step sequence); non-trivial = schedule in which some thread blocked on another"
		P := vrun.Pick(r, 2, 3)
		var cfgs []c02cfg
		for _, qn := range []string{"ring", "flow"} {
			cfgs = append(cfgs,
				c02cfg{queue: qn, factor: 1, putters: []int{2, 2}, wrap: true},
				c02cfg{queue: qn, factor: 1, putters: []int{1, 1, 1}, wrap: true},
				c02cfg{queue: qn, factor: 1, putters: []int{-2, 1}, wrap: false},
			)
			if !r.Quick() {
				cfgs = append(cfgs,
					c02cfg{queue: qn, factor: 1, putters: []int{2, 2, 1}, wrap: true},
					c02cfg{queue: qn, factor: 2, putters: []int{2, 2, 2}, wrap: true},
					c02cfg{queue: qn, factor: 1, putters: []int{-2, -2, 1}, wrap: true},
				)
			}
		}
		cfgs = append(cfgs, c02cfg{queue: "flow", factor: 1, putters: []int{1, 1, 1}, cancel: true})
		for _, qn := range []string{"ring", "flow"} {
			cfgs = append(cfgs,
				c02cfg{queue: qn, factor: 1, seq: [][]int{{-2, 1, 1, -2, 1}}},
				c02cfg{queue: qn, factor: 1, seq: [][]int{{-2, 1}, {1, -2}}},
			)
		}
		for ci, c := range cfgs {
			p := P
			if (len(c.putters) > 2 || len(c.seq) > 1) && p > 1 {
				p-- // three putters: one preemption less to stay within the time budget
			}
			vexp.Run(r, vexp.Prog{Name: c.name(), Budget: vsched.Budget{MaxPreempt: p}, Opts: vsched.Options{Horizon: 4000}, Body: c02body(c), Seconds: r.Remaining() / float64(len(cfgs)-ci)})
		}
		r.Assume("scheduling points: every mutex lock, cond wait/signal/broadcast, atomic op, channel op; plain memory accesses between them are not interleaved (covered by the separate -race pass)")
		r.Assume("writer and reader threads follow the call protocol of pipe._backgroundWrite/_backgroundRead")
	})
}
