//go:build verif

package rueidis

import (
	"context"
	"errors"
	"fmt"
	"strings"
	"testing"
	"time"

	"github.com/redis/rueidis/vshim/simnet"
	"github.com/redis/rueidis/vshim/simredis"
	"github.com/redis/rueidis/vshim/vexp"
	"github.com/redis/rueidis/vshim/vrun"
	"github.com/redis/rueidis/vshim/vsched"
)

// place: where the call under test is made to wait
//
//	queued   - pipelined Do whose reply the server withholds
//	sync     - the only caller, synchronous read, reply withheld
//	multi    - pipelined DoMulti, reply withheld
//	pool     - blocking command while the 1-connection blocking pool is held by another blocking call
//	cachewait- DoCache waiting on another caller's flight whose reply is withheld
//	cacheown - DoCache owner whose reply is withheld
//	retry    - read-only command after a transport error with RetryDelay = 10s
//	done     - context already done before the call
//
// how: deadline (1s) | cancel (a thread cancels at any point; only for pipelined places)
type c05cfg struct {
	name, place, how string
	always           bool
}

const c05T = time.Second

func c05body(c c05cfg) func(x *vsched.Exec) {
	return func(x *vsched.Exec) {
		e := vwNew(func(o *ClientOption, srv *simredis.Server, n *simnet.Net) {
			o.AlwaysPipelining = c.always
			o.BlockingPoolSize = 1
			if c.place == "retry" {
				o.DisableRetry = false
				o.RetryDelay = func(attempts int, cmd Completed, err error) time.Duration { return 10 * time.Second }
			}
			dropped := false
			n.Script = func(cn *simnet.Conn, argv []string) int {
				up := strings.ToUpper(argv[0])
				for _, a := range argv {
					if strings.HasPrefix(a, "stall") || strings.HasPrefix(a, "echo:stall") {
						if c.place == "retry" {
							if !dropped {
								dropped = true
								return simnet.FaultDropBefore
							}
							return simnet.FaultNone
						}
						if up == "PTTL" {
							return simnet.FaultNone
						}
						return simnet.FaultStall
					}
				}
				return simnet.FaultNone
			}
		})
		if e.err != nil {
			x.Fail("client setup failed", "%v", e.err)
			return
		}
		var ctx context.Context
		var cancel context.CancelFunc
		switch {
		case c.place == "done":
			ctx, cancel = context.WithCancel(context.Background())
			cancel()
		case c.how == "deadline":
			ctx, cancel = context.WithTimeout(context.Background(), c05T)
		default:
			ctx, cancel = context.WithCancel(context.Background())
		}
		defer cancel()
		var err error
		var returnedAt time.Duration
		cancelledAt := time.Duration(-1)
		returned := false
		b := e.client.B()
		blockerStarted := false
		// helper threads that create the waiting place
		switch c.place {
		case "queued", "multi":
			// another pipelined call keeps the connection in pipelining mode
			vsched.GoDaemon("other", func() {
				e.client.Do(context.Background(), b.Echo().Message("other").Build())
			})
		case "pool":
			vsched.GoDaemon("holder", func() {
				blockerStarted = true
				e.client.Do(context.Background(), b.Blpop().Key("never").Timeout(0).Build())
			})
		case "cachewait":
			vsched.GoDaemon("owner", func() {
				blockerStarted = true
				e.client.DoCache(context.Background(), b.Get().Key("echo:stall").Cache(), time.Hour)
			})
		}
		vsched.GoNamed("caller", func() {
			switch c.place {
			case "queued", "sync", "done":
				err = e.client.Do(ctx, b.Echo().Message("stall-me").Build()).Error()
			case "multi":
				for _, r := range e.client.DoMulti(ctx, b.Echo().Message("a").Build(), b.Echo().Message("stall-me").Build()) {
					if r.Error() != nil {
						err = r.Error()
					}
				}
			case "pool":
				vsched.Point("wait-holder", func() bool { return blockerStarted && len(e.net.Conns) >= 2 })
				err = e.client.Do(ctx, b.Blpop().Key("never2").Timeout(0).Build()).Error()
			case "cachewait":
				vsched.Point("wait-owner", func() bool { return blockerStarted && e.net.Conns[0].Faulted != "" })
				err = e.client.DoCache(ctx, b.Get().Key("echo:stall").Cache(), time.Hour).Error()
			case "cacheown":
				err = e.client.DoCache(ctx, b.Get().Key("echo:stall").Cache(), time.Hour).Error()
			case "retry":
				err = e.client.Do(ctx, b.Get().Key("stall-key").Build()).Error()
			}
			returned, returnedAt = true, x.Elapsed()
		})
		if c.how == "cancel" && c.place != "done" {
			vsched.GoNamed("canceller", func() {
				cancel()
				cancelledAt = x.Elapsed()
			})
		}
		if x.Run() != vsched.Quiescent {
			return // a call that ignores its context shows up as a deadlock (virtual time may pass for an hour)
		}
		x.Outcome = fmt.Sprintf("returned=%v at=%v err=%v", returned, returnedAt, err)
		if !returned {
			x.Fail("call did not return", "%s", x.Outcome)
			return
		}
		isCtxErr := errors.Is(err, context.DeadlineExceeded) || errors.Is(err, context.Canceled)
		switch {
		case c.place == "done":
			if !errors.Is(err, context.Canceled) {
				x.Fail("call with a done context did not return the context error", "%v", err)
			}
			for _, l := range e.srv.Log {
				for _, a := range l.Argv {
					if a == "stall-me" {
						x.Fail("call with a done context sent its command", "server executed %v", l.Argv)
					}
				}
			}
			for _, cn := range e.net.Conns {
				if cn.Faulted != "" {
					x.Fail("call with a done context sent its command", "the command reached the server")
				}
			}
		case c.how == "deadline":
			if returnedAt > c05T+10*time.Millisecond {
				x.Fail("call returned long after its deadline", "deadline %v, returned at virtual t=%v with %v", c05T, returnedAt, err)
			}
			if !isCtxErr && (returnedAt >= c05T || err == nil) {
				x.Fail("call that outlived its deadline did not report the context error", "returned %v at t=%v", err, returnedAt)
			}
		case c.how == "cancel":
			if err != nil && !isCtxErr {
				x.Fail("cancelled call returned an unexpected error", "%v", err)
			}
			if err == nil {
				x.Fail("call returned success although its reply was withheld", "t=%v", returnedAt)
			}
			if returnedAt > 10*time.Millisecond {
				x.Fail("cancelled call returned late", "cancelled at t=%v, returned at t=%v", cancelledAt, returnedAt)
			}
		}
	}
}

func TestVerif_C05(t *testing.T) {
	vrun.Main(t, "C05", func(r *vrun.Run) {
		r.Rule = "one call with a 1s deadline (virtual clock) or a context cancelled by another thread at any point, placed in each waiting place (queued reply withheld by the server, synchronous read, DoMulti, exhausted blocking pool, waiting on another caller's cache flight, owning a stalled cache flight, retry back-off of 10s, context already done); all interleavings within the preemption/delay bound; oracle: returns by the deadline / at cancellation with the context error, sends nothing when already done; a call that ignores its context is a deadlock; non-trivial = schedule in which a thread blocked"
		cfgs := []c05cfg{
			{name: "done/sync", place: "done", how: "cancel"},
			{name: "done/pipelined", place: "done", how: "cancel", always: true},
			{name: "deadline/sync", place: "sync", how: "deadline"},
			{name: "deadline/queued", place: "queued", how: "deadline", always: true},
			{name: "deadline/multi", place: "multi", how: "deadline", always: true},
			{name: "deadline/pool", place: "pool", how: "deadline"},
			{name: "deadline/cachewait", place: "cachewait", how: "deadline"},
			{name: "deadline/cacheown", place: "cacheown", how: "deadline"},
			{name: "deadline/retry", place: "retry", how: "deadline"},
			{name: "cancel/queued", place: "queued", how: "cancel", always: true},
			{name: "cancel/multi", place: "multi", how: "cancel", always: true},
			{name: "cancel/cachewait", place: "cachewait", how: "cancel"},
			{name: "cancel/cacheown", place: "cacheown", how: "cancel"},
			{name: "cancel/pool", place: "pool", how: "cancel"},
			{name: "cancel/lazy-queued", place: "queued", how: "cancel"},
		}
		for ci, c := range cfgs {
			vexp.Run(r, vexp.Prog{Name: c.name, Delay: vrun.Pick(r, 1, 2), Budget: vsched.Budget{MaxPreempt: 2}, Opts: vsched.Options{Horizon: 8000, MaxVirtual: time.Minute}, Body: c05body(c), Seconds: r.Remaining() / float64(len(cfgs)-ci)})
		}
		r.Assume("virtual clock: no scheduling latency exists, so a return later than the deadline (+10ms) means the call waited on something other than its context")
	})
}
