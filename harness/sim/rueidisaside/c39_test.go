//go:build verif

package rueidisaside

import (
	"context"
	"errors"
	"fmt"
	"strconv"
	"strings"
	"testing"
	"time"

	"github.com/redis/rueidis"
	"github.com/redis/rueidis/vshim/simnet"
	"github.com/redis/rueidis/vshim/simredis"
	"github.com/redis/rueidis/vshim/vexp"
	"github.com/redis/rueidis/vshim/vrun"
	"github.com/redis/rueidis/vshim/vsched"
)

// C39: cache-aside reads never leak locks and load once.
//
// Real CacheAsideClients (one fake client session each, invalidation pushes delivered by a reader thread per client)
// Get the same key concurrently on one fake Redis (mini-Lua runs setkey/delkey/acquireLock, keys expire on the
// virtual clock). Loaders count their invocations and return v1, v2, ...; events: loader failure, external DEL
// (deviation before every command), death of the lock holder (connection lost for good while loading) or its Close.

type c39thr struct {
	client int
	gets   int // number of sequential Gets (0 = 1)
}

type c39cfg struct {
	name    string
	clients int
	thr     []c39thr
	lua     bool
	preset  bool   // the key already holds a value
	replypt bool   // scheduling point between the server executing a command and its reply reaching the caller
	event   string // "" | err (loader invocation #1 fails) | del (external DEL of the key, deviation) | lose | close (thread 0's client dies inside its loader)
	p       int
	tier    int
}

const (
	c39key       = "k"
	c39ttl       = 10 * time.Second
	c39clientTTL = time.Second
)

var errC39load = errors.New("verif: loader failed")

type c39res struct {
	thr, n     int
	val        string
	err        error
	start, end time.Duration
	loaded     int // loader invocation number run inside this Get (0 = none)
}

func c39body(c c39cfg) func(x *vsched.Exec) {
	return func(x *vsched.Exec) {
		srv := simredis.New()
		srv.EnableLua()
		simnet.New(srv)
		srv.ActiveExpire = true
		if c.preset {
			srv.Do("SET", c39key, "stored")
		}
		var sims []*rueidis.VerifSimClient
		var cas []CacheAsideClient
		for i := 0; i < c.clients; i++ {
			idx := i
			ca, err := NewClient(ClientOption{
				ClientBuilder: func(o rueidis.ClientOption) (rueidis.Client, error) {
					cl := rueidis.NewVerifSimClient(srv, o)
					cl.ReplyPoint = c.replypt
					cl.StartReader("reader" + strconv.Itoa(idx))
					sims = append(sims, cl)
					return cl, nil
				},
				ClientTTL:  c39clientTTL,
				UseLuaLock: c.lua,
			})
			if err != nil {
				x.Fail("harness: NewClient failed", "%v", err)
				return
			}
			cas = append(cas, ca)
		}
		loads := 0
		var loadVals []string
		var results []*c39res
		finished := make([]bool, len(c.thr))
		dead := make([]bool, c.clients) // the client died (lost for good / closed) inside its loader
		deadAt := time.Duration(0)
		delDone := false

		if c.event == "del" {
			// another application's DEL, offered before every command a client sends (between two commands, so that the
			// invalidation is on the wire in the order a real server would produce)
			for _, cl := range sims {
				cl.Fail = func(argv []string) error {
					if !delDone && vsched.Cur() != nil && argv[0] != "CLIENT" && argv[0] != "PTTL" && vsched.Choose(2, vsched.KDev, "extdel") == 1 {
						srv.Do("DEL", c39key)
						delDone = true
						vsched.Logf("external DEL at %v", x.Elapsed())
					}
					return nil
				}
			}
		}

		for ti := range c.thr {
			ti := ti
			t := c.thr[ti]
			body := func() {
				n := t.gets
				if n == 0 {
					n = 1
				}
				for g := 0; g < n; g++ {
					res := &c39res{thr: ti, n: g, start: x.Elapsed()}
					loader := func(ctx context.Context, key string) (string, error) {
						loads++
						res.loaded = loads
						me := loads
						vsched.Point("loader", nil)
						if me == 1 && c.event == "err" {
							return "", errC39load
						}
						if ti == 0 && (c.event == "lose" || c.event == "close") && !dead[t.client] {
							dead[t.client], deadAt = true, x.Elapsed()
							if c.event == "lose" {
								sims[t.client].Lose()
								vsched.Logf("client %d lost for good inside its loader at %v", t.client, x.Elapsed())
								vsched.Point("dead", func() bool { return false }) // the process is gone
							}
							cas[t.client].Close()
							vsched.Logf("client %d closed inside its loader at %v", t.client, x.Elapsed())
						}
						v := "v" + strconv.Itoa(me)
						loadVals = append(loadVals, v)
						return v, nil
					}
					res.val, res.err = cas[t.client].Get(context.Background(), c39ttl, c39key, loader)
					res.end = x.Elapsed()
					results = append(results, res)
				}
				finished[ti] = true
			}
			if ti == 0 && c.event == "lose" {
				vsched.GoDaemon("t0", body) // may die inside its loader
			} else {
				vsched.GoNamed("t"+strconv.Itoa(ti), body)
			}
		}

		st := x.Run()
		if st != vsched.Quiescent {
			vsched.Logf("state at %s: t=%v loads=%d key=%q", st, x.Elapsed(), loads, srv.Do("GET", c39key).S)
			return
		}
		anyDead := false
		for _, d := range dead {
			anyDead = anyDead || d
		}
		out := ""
		known := func(v string) bool {
			if c.preset && v == "stored" {
				return true
			}
			for _, lv := range loadVals {
				if lv == v {
					return true
				}
			}
			return false
		}
		for _, r := range results {
			if strings.HasPrefix(r.val, PlaceholderPrefix) {
				x.Fail("Get returned the internal lock placeholder", "thread %d get %d returned %q (err %v)", r.thr, r.n, r.val, r.err)
			}
			switch {
			case r.err == nil:
				if !known(r.val) {
					x.Fail("Get returned a value that no loader produced and that was never stored", "thread %d get %d returned %q; loader values %v", r.thr, r.n, r.val, loadVals)
				}
				out += fmt.Sprintf("t%d.%d=%s ", r.thr, r.n, r.val)
			case errors.Is(r.err, errC39load):
				if r.loaded != 1 {
					x.Fail("loader error returned to a caller whose loader did not fail", "thread %d get %d: err %v, its loader invocation was #%d", r.thr, r.n, r.err, r.loaded)
				}
				out += fmt.Sprintf("t%d.%d=loader-error ", r.thr, r.n)
			default:
				if !dead[c.thr[r.thr].client] {
					x.Fail("Get failed although its client is alive and its loader did not fail", "thread %d get %d (client %d): %v after %v", r.thr, r.n, c.thr[r.thr].client, r.err, r.end-r.start)
				}
				out += fmt.Sprintf("t%d.%d=error(dead client) ", r.thr, r.n)
			}
			if r.loaded == 1 && c.event == "err" && !errors.Is(r.err, errC39load) {
				x.Fail("loader error not returned to its caller", "thread %d get %d ran the failing loader but returned (%q, %v)", r.thr, r.n, r.val, r.err)
			}
			// nothing takes virtual time unless a client died: a Get that needed a timer (the holder's liveness refresh
			// re-arming the watchers) instead of the invalidation of the key missed its wake-up
			if !anyDead && r.end != r.start {
				x.Fail("Get finished only after a timer tick although no client died (missed invalidation wake-up)", "thread %d get %d started at %v and returned at %v", r.thr, r.n, r.start, r.end)
			}
			// a Get on a live client never has to wait longer than the dead holder's liveness TTL
			if !dead[c.thr[r.thr].client] && r.end-r.start > c39clientTTL+c39clientTTL/2 {
				x.Fail("Get waited longer than the liveness TTL of a dead lock holder", "thread %d get %d took %v (ClientTTL %v)", r.thr, r.n, r.end-r.start, c39clientTTL)
			}
		}
		for ti, f := range finished {
			if !f && !(ti == 0 && c.event == "lose" && dead[c.thr[0].client]) {
				x.Fail("harness: thread did not finish", "thread %d", ti)
			}
		}
		// loader runs once per miss generation while the holder is alive: without Del / failure / death exactly one load
		switch {
		case c.preset:
			if loads != 0 {
				x.Fail("loader ran although the key holds a value", "%d loader runs", loads)
			}
		case c.event == "" || (c.event == "del" && !delDone) || ((c.event == "lose" || c.event == "close") && !anyDead):
			if loads != 1 {
				x.Fail("loader ran more than once for concurrent Gets with a live lock holder", "%d loader runs %v; results: %s", loads, loadVals, out)
			}
			for _, r := range results {
				if r.err == nil && r.val != "v1" {
					x.Fail("concurrent Get did not return the single loader's value", "thread %d get %d returned %q", r.thr, r.n, r.val)
				}
			}
		case c.event == "err":
			if loads != 2 {
				x.Fail("after a loader failure exactly one more load is expected", "%d loader runs %v; results: %s", loads, loadVals, out)
			}
		case c.event == "del" && delDone, anyDead:
			if loads > 2 {
				x.Fail("loader ran more often than once per miss generation", "%d loader runs with one %s event; results: %s", loads, c.event, out)
			}
		}
		// no lock may be left behind
		if g := srv.Do("GET", c39key); g.T == '$' && strings.HasPrefix(g.S, PlaceholderPrefix) {
			x.Fail("lock placeholder left on the key at quiescence", "key holds %q after every Get returned; results: %s", g.S, out)
		}
		if delDone {
			out += "event=del "
		}
		if anyDead {
			out += "event=" + c.event + "@" + deadAt.String()
		}
		x.Outcome = out + " loads=" + strconv.Itoa(loads)
	}
}

// c39slow: two Gets (keys k and k2) start together on client 0, so that both run the client's first keepalive; the
// loader of k takes 2.5 x ClientTTL; client 1 asks for k after 1.6 x ClientTTL. The holder is alive all the time, so
// the loader of k must run once and both clients must return its value.
func c39slow(x *vsched.Exec) {
	srv := simredis.New()
	srv.EnableLua()
	simnet.New(srv)
	srv.ActiveExpire = true
	var cas []CacheAsideClient
	for i := 0; i < 2; i++ {
		idx := i
		ca, err := NewClient(ClientOption{
			ClientBuilder: func(o rueidis.ClientOption) (rueidis.Client, error) {
				cl := rueidis.NewVerifSimClient(srv, o)
				cl.StartReader("reader" + strconv.Itoa(idx))
				return cl, nil
			},
			ClientTTL: c39clientTTL,
		})
		if err != nil {
			x.Fail("harness: NewClient failed", "%v", err)
			return
		}
		cas = append(cas, ca)
	}
	loads := map[string]int{}
	type res struct {
		who, key, val string
		err           error
	}
	var results []res
	get := func(who string, client int, key string, work time.Duration) {
		v, err := cas[client].Get(context.Background(), c39ttl, key, func(ctx context.Context, key string) (string, error) {
			loads[key]++
			n := loads[key]
			if work > 0 {
				time.Sleep(work)
			}
			return key + "-v" + strconv.Itoa(n), nil
		})
		results = append(results, res{who, key, v, err})
	}
	vsched.GoNamed("a.k", func() { get("a.k", 0, "k", 2500*time.Millisecond) })
	vsched.GoNamed("a.k2", func() { get("a.k2", 0, "k2", 0) })
	vsched.GoNamed("b.k", func() {
		time.Sleep(1600 * time.Millisecond)
		get("b.k", 1, "k", 0)
	})
	if x.Run() != vsched.Quiescent {
		return
	}
	out := ""
	for _, r := range results {
		out += fmt.Sprintf("%s=%s/%v ", r.who, r.val, r.err)
		if r.err != nil {
			x.Fail("Get failed although its client is alive and its loader did not fail", "%s: %v", r.who, r.err)
		}
		if strings.HasPrefix(r.val, PlaceholderPrefix) {
			x.Fail("Get returned the internal lock placeholder", "%s returned %q", r.who, r.val)
		}
		if r.key == "k" && r.val != "k-v1" {
			x.Fail("concurrent Get did not return the single loader's value", "%s returned %q; %s", r.who, r.val, out)
		}
	}
	if loads["k"] != 1 || loads["k2"] != 1 {
		x.Fail("loader ran more than once for concurrent Gets with a live lock holder", "loader runs %v (the holder of k is alive and still loading when the other client asks); results: %s", loads, out)
	}
	x.Outcome = out + fmt.Sprintf("loads=%v", loads)
}

func c39cfgs() []c39cfg {
	two := []c39thr{{0, 0}, {1, 0}}
	return []c39cfg{
		{name: "2clients-preset", clients: 2, thr: two, preset: true, p: 2},
		{name: "solo-get-get", clients: 1, thr: []c39thr{{0, 2}}, p: 2},
		{name: "2clients-get-get", clients: 2, thr: two, p: 2},
		{name: "1client-get-get", clients: 1, thr: []c39thr{{0, 0}, {0, 0}}, p: 2},
		{name: "2clients-get-get-replypt", clients: 2, thr: two, replypt: true, p: 1},
		{name: "2clients-get-get-del-replypt", clients: 2, thr: two, event: "del", replypt: true, p: 1},
		{name: "2clients-get-get-lua", clients: 2, thr: two, lua: true, p: 2},
		{name: "2clients-get-get-err", clients: 2, thr: []c39thr{{0, 2}, {1, 0}}, event: "err", p: 2},
		{name: "1client-get-get-err", clients: 1, thr: []c39thr{{0, 0}, {0, 0}}, event: "err", p: 2},
		{name: "2clients-get-get-del", clients: 2, thr: two, event: "del", p: 2},
		{name: "2clients-get-get-lose", clients: 2, thr: two, event: "lose", p: 2},
		{name: "2clients-get-get-close", clients: 2, thr: two, event: "close", p: 2},
		{name: "3clients-get-get-get", clients: 3, thr: []c39thr{{0, 0}, {1, 0}, {2, 0}}, p: 2, tier: 1},
		{name: "3clients-get-get-get-lose", clients: 3, thr: []c39thr{{0, 0}, {1, 0}, {2, 0}}, event: "lose", p: 2, tier: 1},
		{name: "2clients-3threads-err", clients: 2, thr: []c39thr{{0, 0}, {0, 0}, {1, 0}}, event: "err", p: 2, tier: 1},
	}
}

func TestVerif_C39(t *testing.T) {
	vrun.Main(t, "C39", func(r *vrun.Run) {
		r.Rule = "every schedule (preemption/delay/deviation bounded) of 2-3 threads calling Get for one key through real CacheAsideClients over a fake Redis with counting loaders; plus a loader that runs 2.5 x ClientTTL on a client whose first two Gets start together while another client asks for the key after 1.6 x ClientTTL; non-trivial = threads really blocked on each other"
		r.Assume("simredis models Redis 7 tracking (OPTIN, invalidation on SET/DEL/expiry, self-invalidations after the reply); keys expire exactly on time; SET NX GET as in Redis 7")
		r.Assume("the fake client delivers invalidation pushes through one reader thread per client; a dead client = its connection is lost for good (Lose) or Close()")
		r.Assume("a waiting Get has to be woken by the invalidation of the key: without a client death no Get may take virtual time (the periodic refresh of the holder's liveness key would otherwise mask a missed wake-up)")
		r.Assume("'once per miss generation': exactly one loader run without events, at most one more after a Del / loader failure / death of the holder")
		var cfgs []c39cfg
		for _, c := range c39cfgs() {
			if c.tier == 0 || !r.Quick() {
				cfgs = append(cfgs, c)
			}
		}
		// a long loader on a client whose first two Gets race through its first liveness set-up
		vexp.Run(r, vexp.Prog{Name: "slow-loader/2gets-on-a|get-on-b", Body: c39slow,
			Budget: vsched.Budget{MaxPreempt: vrun.Pick(r, 2, 3)}, Delay: 1,
			Opts:    vsched.Options{Horizon: 20000, MaxVirtual: 60 * time.Second},
			Seconds: vrun.Pick(r, 15.0, 120.0)})
		r0, target := r.Remaining(), vrun.Pick(r, 45.0, 840.0)
		for ci, c := range cfgs {
			left := target - (r0 - r.Remaining())
			if left < 1 {
				left = 1
			}
			p := c.p
			if !r.Quick() && len(c.thr) == 2 && c.event != "del" {
				p = 3 // thorough: the two-thread programs get one more preemption
			}
			vexp.Run(r, vexp.Prog{Name: c.name, Body: c39body(c),
				Budget:  vsched.Budget{MaxPreempt: p, MaxDev: 1},
				Delay:   vrun.Pick(r, 1, 2),
				Opts:    vsched.Options{Horizon: 6000, MaxVirtual: 60 * time.Second},
				Seconds: left / float64(len(cfgs)-ci)})
		}
	})
}
