#!/bin/sh
# Re-runs the quick check of every seed's own property (plus extra checks named in meta.json "also_check") against the seed
# and records the results in the seeds' meta.json; then regenerates seeded/README.md.
cd "$(dirname "$0")/.."
for d in seeded/*/; do
  d=${d%/}
  ids="$(jq -r .property $d/meta.json) $(jq -r '(.also_check // []) | join(" ")' $d/meta.json)"
  tools/seed_check.sh $d $ids 2>&1 | grep "^SEED" | cut -c1-200
done
python3 tools/seed_readme.py
