#!/bin/sh
# Runs the repository's own test suite (guard off: nothing of /verif is compiled in) the way
# /root/.vp/BASELINE.json does and reports every stable_pass test that did not pass.
# usage: tools/baseline.sh [outdir]
out=${1:-/root/.cache/verif-baseline}
mkdir -p "$out"; rm -f "$out"/*.json
unset GOSUMDB GOTOOLCHAIN
export GOFLAGS=-mod=mod GOPROXY=off
for m in $(cat /w/out/gomods.txt); do
  n=$(echo "$m" | tr '/.' '__')
  (cd /repo/$m && go test -json -vet=off -count=1 -timeout 25m ./... > "$out/$n.json" 2>"$out/$n.err")
done
python3 - "$out" <<'PY'
import json,sys,glob
out=sys.argv[1]
base=json.load(open('/root/.vp/BASELINE.json'))
stable=set(base['stable_pass'])
passed=set(); failed=set()
for f in glob.glob(out+'/*.json'):
    for line in open(f, errors='replace'):
        try: e=json.loads(line)
        except Exception: continue
        t=e.get('Test')
        if not t: continue
        k=e['Package']+'::'+t
        if e.get('Action')=='pass': passed.add(k)
        elif e.get('Action')=='fail': failed.add(k)
missing=sorted(stable-passed)
print("stable_pass:",len(stable),"passed now:",len(stable&passed),"not passed:",len(missing))
for k in missing[:40]: print("  NOT PASSED:",k, "(failed)" if k in failed else "(not run)")
PY
