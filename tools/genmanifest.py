#!/usr/bin/env python3
"""Regenerates MANIFEST.json from tools/checks.json (one entry per claimed property)."""
import json, os
here = os.path.dirname(os.path.abspath(__file__))
root = os.path.dirname(here)
checks = json.load(open(os.path.join(here, "checks.json")))
props = [json.loads(l) for l in open(os.path.join(root, "properties.jsonl")) if l.strip()]
base = json.load(open("/root/.vp/BASELINE.json")) if os.path.exists("/root/.vp/BASELINE.json") else {"cmd": ""}
m = {
    "version": 1,
    "setup_cmd": "./setup.sh",
    "hooks": {
        "guard": "verif",
        "enable": "no source hooks are committed to /repo: each check builds /repo's working tree with `go test -c -tags verif -overlay <generated.json>`; the overlay adds the white-box harness files (//go:build verif) and the virtual package github.com/redis/rueidis/vshim, and (sim flavour) replaces each source file by a copy in which sync/atomic/time/context/channel/go operations are routed through the controlled scheduler (engine/vxform)",
        "baseline_off_cmd": checks.get("_baseline", base.get("cmd", "")),
        "source_commits": [],
        "add_only": True,
    },
    "engines": [
        {"name": "gosim", "path": "engine/vshim/vsched", "kind_free_text": "stateless model checker: controlled cooperative scheduler + DFS over scheduling/deviation choices with iterative preemption bounding, run on the transformed real code", "serves_properties": []},
        {"name": "enum", "path": "harness/plain", "kind_free_text": "bounded-exhaustive enumeration of inputs / operation sequences / environment answers against reference models, on the real code", "serves_properties": []},
        {"name": "graph", "path": "harness/plain", "kind_free_text": "explicit-state BFS with canonical state hashing; each transition calls the real function", "serves_properties": []},
    ],
    "checks": [],
    "not_applicable": [],
    "notes": "All checks: exit 0 = held on everything explored (exhaustive:false in the evidence if a budget cap cut it short), exit 1 = VIOLATION line, exit 2 = machinery error (never with a VIOLATION line). Known findings: known_findings.json.",
}
for p in props:
    pid = p["id"]
    c = checks.get(pid)
    if not c or c.get("na"):
        m["not_applicable"].append({"property_id": pid, "reason": (c or {}).get("na", "check not built yet in this round; see DESIGN.md for the plan")})
        continue
    for e in m["engines"]:
        if e["name"] == c["engine"]:
            e["serves_properties"].append(pid)
    m["checks"].append({
        "property_id": pid,
        "quick_cmd": f"./bin/verif check {pid} --tier quick",
        "thorough_cmd": f"./bin/verif check {pid} --tier thorough",
        "evidence_file": f"evidence/{pid}.json",
        "replay_cmd_template": "./bin/verif replay {path}",
        "engine": c["engine"],
        "level_claimed": {"category": "model_checking", "text": c["text"], "design_ref": c.get("design_ref", f"DESIGN.md §4 {pid}")},
        "level_note": c["note"],
        "technique": c["technique"],
    })
json.dump(m, open(os.path.join(root, "MANIFEST.json"), "w"), indent=1)
print("checks:", len(m["checks"]), "not_applicable:", len(m["not_applicable"]))
