#!/bin/sh
# usage: tools/seed_import.sh <seed worktree> <ID> <name> "<needs>"
# Copies a seeded change into seeded/<ID>/<name>/, re-verifies its demonstration in a fresh scratch worktree
# (fails with the patch, passes without) and writes meta.json.
cd "$(dirname "$0")/.."
src=$1; id=$2; name=$3; needs=$4
dst=seeded/${SEED_DIR:-$id}
mkdir -p "$dst"
cp "$src/SEED/patch.diff" "$dst/patch.diff"
demo=$(ls "$src"/SEED/*demo*test.go* 2>/dev/null | head -1)
cp "$demo" "$dst/seed_demo_test.go"
[ -f "$src/SEED/NOTES.md" ] && cp "$src/SEED/NOTES.md" "$dst/NOTES.md"
pkgdir=$(cd "$src" && git status --short | grep 'demo.*_test.go' | grep -v SEED | head -1 | awk '{print $2}' | xargs dirname)
[ -z "$pkgdir" ] && pkgdir=.
wt=/root/.cache/verif-selftest/importwt.$$
rm -rf "$wt"; git -C /repo worktree prune; git -C /repo worktree add -q --detach "$wt" HEAD
cp "$dst/seed_demo_test.go" "$wt/$pkgdir/seed_demo_test.go"
export GOFLAGS=-mod=mod GOPROXY=off
modroot="$wt"; [ -f "$wt/$pkgdir/go.mod" ] && modroot="$wt/$pkgdir"
run() { (cd "$wt/$pkgdir" && go test -count=3 -vet=off -run 'TestSeed' . 2>&1 | tail -3); }
without=$(run); wcode=$(echo "$without" | grep -c '^ok')
git -C "$wt" apply "$PWD/$dst/patch.diff" || echo "PATCH DOES NOT APPLY"
build=$( (cd "$wt" && go build ./... 2>&1 | tail -2) )
with=$(run); fcode=$(echo "$with" | grep -c 'FAIL')
git -C /repo worktree remove --force "$wt"
python3 - "$dst" "$id" "$name" "$needs" "$pkgdir" "$wcode" "$fcode" <<PY
import json,sys
dst,id,name,needs,pkg,w,f=sys.argv[1:8]
json.dump({"property":id,"name":name,"package_dir":pkg,"needs_to_manifest":needs,
 "author":"independent sub-agent given only the property text and a scratch worktree",
 "verified_by_me":{"demo_passes_without_patch":w!="0","demo_fails_with_patch":f!="0","how":"tools/seed_import.sh: fresh worktree of /repo HEAD, go test -count=3 -run SeedDemo with and without patch.diff; go build ./... with the patch"},
 "checks_run":[]},open(dst+"/meta.json","w"),indent=1)
PY
echo "IMPORT $dst: without-patch ok=$wcode with-patch FAIL=$fcode build='$build'"
