#!/bin/sh
# usage: tools/run_thorough_all.sh [ID...]
# runs every (or the given) thorough check once and prints one summary line per property (used with `vp run`)
cd "$(dirname "$0")/.."
./setup.sh >/dev/null 2>&1
ids="$*"; [ -z "$ids" ] && ids=$(./bin/verif list)
for id in $ids; do
  s=$(date +%s)
  out=$(./bin/verif check $id --tier thorough 2>&1); code=$?
  e=$(date +%s)
  echo "== $id exit=$code wall=$((e-s))s :: $(echo "$out" | grep "^$id tier" | cut -c1-220)"
  echo "$out" | grep "^VIOLATION\|machinery\|^KNOWN\|^verif:" | cut -c1-200 | head -5
done
