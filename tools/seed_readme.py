#!/usr/bin/env python3
# Regenerates seeded/README.md from the meta.json files (written by tools/seed_import.sh, seed_suite.sh, seed_check.sh).
import json,glob,os
root=os.path.join(os.path.dirname(os.path.abspath(__file__)),'..','seeded')
rows=[]
for f in sorted(glob.glob(os.path.join(root,'*','meta.json'))):
    m=json.load(open(f))
    d=os.path.relpath(os.path.dirname(f),root)
    runs=[r for r in m.get('checks_run',[]) if isinstance(r,dict)]
    det=[("%s(%s)"%(r['check'],r['tier'])) for r in runs if r.get('detected')]
    miss=[("%s(%s)"%(r['check'],r['tier'])) for r in runs if not r.get('detected')]
    suite=m.get('suite_with_patch')
    suite_s="not run" if not suite else "%d/%d"%(suite['passed'],suite['stable_pass'])
    fr=m.get('first_result',{})
    rows.append((d,m.get('needs_to_manifest','').replace('|','/'),suite_s,fr.get('result','?'),", ".join(det) or "-",", ".join(miss) or "-",fr.get('note','').replace('|','/')))
out=["# Independently seeded property-breaking changes","",
"Each directory holds a change written by a sub-agent that was given only the text of one property and a scratch",
"worktree of the repository (nothing from /verif): `patch.diff` (never applied to /repo itself), the author's",
"demonstration test `seed_demo_test.go`, the author's `NOTES.md`, and `meta.json` with what I verified myself:",
"the demonstration passes on the unchanged tree and fails with the patch (`tools/seed_import.sh`), the repository's",
"pinned suite still passes with the patch (`tools/seed_suite.sh`, column *suite*), and which checks of /verif report",
"it (`tools/seed_check.sh`; scratch worktree + `VERIF_REPO`).","",
"*first* is the honest outcome of the first run of the property's own check against the seed, before any",
"strengthening; *note* says what was missing and what was added. A check is never loosened to pass and never",
"special-cased to a seed: what was added are programs/alphabet entries/environment deviations of the kind the seed needed.","",
"| seed | needs to manifest | suite | first | detected by now | not detected by | note |","|---|---|---|---|---|---|---|"]
for r in rows: out.append("| "+" | ".join(r)+" |")
open(os.path.join(root,'README.md'),'w').write("\n".join(out)+"\n")
print(len(rows),"seeds")
