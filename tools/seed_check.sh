#!/bin/sh
# usage: tools/seed_check.sh <seeded/ID/name> [check ids...]
# Applies seeded/<...>/patch.diff to a scratch worktree of /repo and runs the quick (or $TIER) checks given
# (default: the property the seed was written for), printing which ones report a violation.
cd "$(dirname "$0")/.."
d=$1; shift
ids="$*"
[ -z "$ids" ] && ids=$(jq -r .property "$d/meta.json")
wt=/root/.cache/verif-selftest/seedwt.$$
mkdir -p /root/.cache/verif-selftest; rm -rf "$wt"; git -C /repo worktree prune
git -C /repo worktree add -q --detach "$wt" HEAD || exit 2
if ! git -C "$wt" apply "$PWD/$d/patch.diff"; then echo "SEED $d: patch does not apply to the current tree"; git -C /repo worktree remove --force "$wt"; exit 2; fi
for id in $ids; do
  out=$(VERIF_REPO="$wt" VERIF_SCRATCH=/root/.cache/verif-selftest/build.$$ ./bin/verif check $id --tier ${TIER:-quick} 2>/dev/null); code=$?
  n=$(echo "$out" | grep -c '^VIOLATION')
  echo "SEED $d check=$id exit=$code violations=$n :: $(echo "$out" | grep "^$id tier" | cut -c1-160)"
  echo "$out" | grep '^VIOLATION' | head -3 | cut -c1-200
  # record the result in meta.json (replacing an earlier record for the same check and tier)
  sigs=$(echo "$out" | grep '^VIOLATION' | sed 's/.*replay=//' | xargs -r -n1 basename | head -8 | tr '\n' ',')
  python3 - "$d/meta.json" "$id" "${TIER:-quick}" "$code" "$n" "$sigs" "$(git rev-parse --short HEAD)" <<'PY'
import json,sys
f,cid,tier,code,n,sigs,commit=sys.argv[1:8]
m=json.load(open(f))
runs=[r for r in m.get('checks_run',[]) if not (isinstance(r,dict) and r.get('check')==cid and r.get('tier')==tier)]
runs.append({"check":cid,"tier":tier,"exit":int(code),"violations":int(n),"detected":int(code)==1 and int(n)>0,
  "replay_files":[s for s in sigs.split(',') if s],"verif_commit_at_or_after":commit,
  "how":"tools/seed_check.sh: patch.diff applied to a scratch worktree of /repo HEAD, check run with VERIF_REPO pointing at it"})
m['checks_run']=runs
json.dump(m,open(f,'w'),indent=1)
PY
done
git -C /repo worktree remove --force "$wt"; rm -rf /root/.cache/verif-selftest/build.$$
# (runs against a scratch tree write their evidence under the scratch directory, not to /verif/evidence)
