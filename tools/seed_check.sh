#!/bin/sh
# usage: tools/seed_check.sh <seeded/ID/name> [check ids...]
# Applies seeded/<...>/patch.diff to a scratch worktree of /repo and runs the quick (or $TIER) checks given
# (default: the property the seed was written for), printing which ones report a violation.
cd "$(dirname "$0")/.."
d=$1; shift
ids="$*"
[ -z "$ids" ] && ids=$(jq -r .property "$d/meta.json")
wt=/root/.cache/verif-selftest/seedwt.$$
mkdir -p /root/.cache/verif-selftest; rm -rf "$wt"; git -C /repo worktree prune
git -C /repo worktree add -q --detach "$wt" HEAD || exit 2
if ! git -C "$wt" apply "$PWD/$d/patch.diff"; then echo "SEED $d: patch does not apply to the current tree"; git -C /repo worktree remove --force "$wt"; exit 2; fi
for id in $ids; do
  out=$(VERIF_REPO="$wt" VERIF_SCRATCH=/root/.cache/verif-selftest/build.$$ ./bin/verif check $id --tier ${TIER:-quick} 2>/dev/null); code=$?
  n=$(echo "$out" | grep -c '^VIOLATION')
  echo "SEED $d check=$id exit=$code violations=$n :: $(echo "$out" | grep "^$id tier" | cut -c1-160)"
  echo "$out" | grep '^VIOLATION' | head -3 | cut -c1-200
done
git -C /repo worktree remove --force "$wt"; rm -rf /root/.cache/verif-selftest/build.$$
for id in $ids; do ./bin/verif check $id --tier quick >/dev/null 2>&1; done
