#!/bin/sh
# Applies each deliberate property-breaking change under mutants/<ID>/*.patch to /repo,
# runs the quick check of <ID> and requires a VIOLATION; always restores /repo.
# usage: tools/selftest.sh [ID ...]
cd "$(dirname "$0")/.."
ids="$*"
[ -z "$ids" ] && ids=$(ls mutants)
rc=0
for id in $ids; do
  for p in mutants/$id/*.patch; do
    [ -f "$p" ] || continue
    if ! git -C /repo apply --check "$PWD/$p" 2>/dev/null; then echo "SELFTEST $id $p: patch does not apply"; rc=1; continue; fi
    git -C /repo apply "$PWD/$p"
    out=$(./bin/verif check $id --tier quick 2>/dev/null); code=$?
    git -C /repo checkout -- . 
    if [ $code -eq 1 ] && echo "$out" | grep -q "^VIOLATION property=$id"; then
      echo "SELFTEST $id $(basename $p): detected ($(echo "$out" | grep -c '^VIOLATION') violation signatures)"
    else
      echo "SELFTEST $id $(basename $p): MISSED (exit $code)"; rc=1
    fi
  done
done
exit $rc
