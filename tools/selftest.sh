#!/bin/sh
# Applies each deliberate property-breaking change under mutants/<ID>/*.patch to a SCRATCH WORKTREE of
# /repo (never to /repo itself), runs the quick check of <ID> against that tree and requires a VIOLATION.
# usage: tools/selftest.sh [ID ...]
cd "$(dirname "$0")/.."
ids="$*"
[ -z "$ids" ] && ids=$(ls mutants)
rc=0
wt=/root/.cache/verif-selftest/wt.$$
mkdir -p /root/.cache/verif-selftest
for id in $ids; do
  for p in mutants/$id/*.patch; do
    [ -f "$p" ] || continue
    rm -rf "$wt"; git -C /repo worktree prune
    git -C /repo worktree add -q --detach "$wt" HEAD || { echo "SELFTEST $id: cannot create worktree"; rc=1; continue; }
    # carry over uncommitted changes of /repo so that the scratch tree equals the working tree
    git -C /repo diff HEAD | git -C "$wt" apply --allow-empty 2>/dev/null
    if ! git -C "$wt" apply "$PWD/$p" 2>/dev/null; then echo "SELFTEST $id $(basename $p): patch does not apply"; rc=1; git -C /repo worktree remove --force "$wt"; continue; fi
    out=$(VERIF_REPO="$wt" VERIF_SCRATCH=/root/.cache/verif-selftest/build.$$ ./bin/verif check $id --tier quick 2>/dev/null); code=$?
    git -C /repo worktree remove --force "$wt"
    if [ $code -eq 1 ] && echo "$out" | grep -q "^VIOLATION property=$id"; then
      echo "SELFTEST $id $(basename $p): detected ($(echo "$out" | grep -c '^VIOLATION') violation signatures)"
    else
      echo "SELFTEST $id $(basename $p): MISSED (exit $code)"; rc=1
    fi
  done
done
# the evidence file of <ID> was rewritten by the mutated run: refresh it from the real tree
for id in $ids; do ./bin/verif check $id --tier quick >/dev/null 2>&1; done
rm -rf /root/.cache/verif-selftest/build.$$
exit $rc
