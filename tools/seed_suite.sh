#!/bin/sh
# usage: tools/seed_suite.sh <seeded/ID/name>...
# Applies each seeded change in a scratch worktree of /repo HEAD and runs the repository's own pinned test suite
# (every module, as /root/.vp/BASELINE.json does); reports stable_pass tests that no longer pass and records the
# result in the seed's meta.json ("suite_with_patch").
cd "$(dirname "$0")/.."
unset GOSUMDB GOTOOLCHAIN
export GOFLAGS=-mod=mod GOPROXY=off
for seed in "$@"; do
  wt=/root/.cache/verif-selftest/suitewt.$$
  out=/root/.cache/verif-selftest/suiteout.$$
  rm -rf "$wt" "$out"; mkdir -p "$out"
  git -C /repo worktree prune; git -C /repo worktree add -q --detach "$wt" HEAD
  git -C "$wt" apply "$PWD/$seed/patch.diff" || { echo "SUITE $seed: patch does not apply"; git -C /repo worktree remove --force "$wt"; continue; }
  for m in $(cat /w/out/gomods.txt); do
    n=$(echo "$m" | tr '/.' '__')
    (cd "$wt/$m" && go test -json -vet=off -count=1 -timeout 10m ./... > "$out/$n.json" 2>"$out/$n.err")
    # the suite has a few load-sensitive tests (1 ms deadlines, a 100 us context): if a stable_pass test of this module
    # did not pass, the module is run a second time and a test counts as passing if it passed in either run
    # (BASELINE's stable_pass was itself established over several runs)
    if ! python3 - "$out/$n.json" <<'PY'
import json,sys
base=set(json.load(open('/root/.vp/BASELINE.json'))['stable_pass'])
passed=set(); pkgs=set()
for line in open(sys.argv[1], errors='replace'):
    try: e=json.loads(line)
    except Exception: continue
    if e.get('Package'): pkgs.add(e['Package'])
    if e.get('Test') and e.get('Action')=='pass': passed.add(e['Package']+'::'+e['Test'])
need={t for t in base if t.split('::')[0] in pkgs}
sys.exit(0 if need<=passed else 1)
PY
    then
      (cd "$wt/$m" && go test -json -vet=off -count=1 -timeout 10m ./... > "$out/${n}_retry.json" 2>"$out/${n}_retry.err")
      # a third and last attempt for the tests that hang under load (TestSentinelSendToReplicasClientPubSub): only when a
      # whole package is still without a verdict for some stable test
      if ! python3 - "$out/$n.json" "$out/${n}_retry.json" <<'PY'
import json,sys
base=set(json.load(open('/root/.vp/BASELINE.json'))['stable_pass'])
passed=set(); pkgs=set()
for f in sys.argv[1:]:
    for line in open(f, errors='replace'):
        try: e=json.loads(line)
        except Exception: continue
        if e.get('Package'): pkgs.add(e['Package'])
        if e.get('Test') and e.get('Action')=='pass': passed.add(e['Package']+'::'+e['Test'])
need={t for t in base if t.split('::')[0] in pkgs}
sys.exit(0 if need<=passed else 1)
PY
      then
        (cd "$wt/$m" && go test -json -vet=off -count=1 -timeout 10m ./... > "$out/${n}_retry2.json" 2>"$out/${n}_retry2.err")
      fi
    fi
  done
  python3 - "$out" "$seed" <<'PY'
import json,sys,glob
out,seed=sys.argv[1:3]
base=json.load(open('/root/.vp/BASELINE.json'))
stable=set(base['stable_pass'])
passed=set(); failed=set()
for f in glob.glob(out+'/*.json'):
    for line in open(f, errors='replace'):
        try: e=json.loads(line)
        except Exception: continue
        t=e.get('Test')
        if not t: continue
        k=e['Package']+'::'+t
        if e.get('Action')=='pass': passed.add(k)
        elif e.get('Action')=='fail': failed.add(k)
missing=sorted(stable-passed)
print("SUITE %s: stable_pass=%d passed=%d not_passed=%d %s"%(seed,len(stable),len(stable&passed),len(missing),missing[:6]))
m=json.load(open(seed+'/meta.json'))
m['suite_with_patch']={"stable_pass":len(stable),"passed":len(stable&passed),"not_passed":missing[:20],
  "how":"tools/seed_suite.sh: scratch worktree of /repo HEAD + patch.diff, go test -json -vet=off -count=1 ./... in every module (a module with a stable test that did not pass is run again, at most three runs in all: load-sensitive tests; a test counts as passing if it passed in any run), compared with BASELINE stable_pass"}
json.dump(m,open(seed+'/meta.json','w'),indent=1)
PY
  git -C /repo worktree remove --force "$wt"; rm -rf "$out"
done
