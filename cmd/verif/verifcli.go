// Command verif drives the model-checking harnesses for redis/rueidis.
//
//	verif check <ID> [--tier quick|thorough]   build from /repo's working tree, explore, write evidence
//	verif replay <path>                        re-execute one recorded counterexample
//	verif build                                pre-build every harness binary for the current tree
//	verif clean                                remove the scratch build directory
package main

import (
	"crypto/sha256"
	"encoding/hex"
	"encoding/json"
	"fmt"
	"io/fs"
	"os"
	"os/exec"
	"path/filepath"
	"sort"
	"strconv"
	"strings"
	"sync"
	"syscall"
	"time"

	"verif/engine/vxform"
)

// repoDir is the tree under test: /repo, or a scratch worktree of it for selftests (VERIF_REPO).
var repoDir = func() string {
	if d := os.Getenv("VERIF_REPO"); d != "" {
		return d
	}
	return "/repo"
}()

var verifDir = func() string {
	if d := os.Getenv("VERIF_DIR"); d != "" {
		return d
	}
	exe, err := os.Executable()
	if err == nil {
		d := filepath.Dir(filepath.Dir(exe))
		if _, err := os.Stat(filepath.Join(d, "properties.jsonl")); err == nil {
			return d
		}
	}
	return "/verif"
}()

func scratchRoot() string {
	if d := os.Getenv("VERIF_SCRATCH"); d != "" {
		return d
	}
	home, _ := os.UserHomeDir()
	if home == "" {
		home = "/root"
	}
	return filepath.Join(home, ".cache", "verif-rueidis")
}

func die(code int, f string, a ...any) {
	fmt.Fprintf(os.Stderr, "verif: "+f+"\n", a...)
	os.Exit(code)
}

func main() {
	if len(os.Args) < 2 {
		die(2, "usage: verif check <ID> [--tier quick|thorough] | replay <path> | build | clean | list")
	}
	switch os.Args[1] {
	case "check":
		if len(os.Args) < 3 {
			die(2, "usage: verif check <ID> [--tier quick|thorough]")
		}
		id := os.Args[2]
		tier := os.Getenv("VERIF_TIER")
		for i := 3; i < len(os.Args); i++ {
			if os.Args[i] == "--tier" && i+1 < len(os.Args) {
				tier = os.Args[i+1]
				i++
			}
		}
		if tier == "" {
			tier = "quick"
		}
		os.Exit(cmdCheck(id, tier))
	case "replay":
		if len(os.Args) < 3 {
			die(2, "usage: verif replay <path>")
		}
		os.Exit(cmdReplay(os.Args[2]))
	case "build":
		os.Exit(cmdBuildAll())
	case "clean":
		os.RemoveAll(scratchRoot())
	case "list":
		ids := make([]string, 0, len(registry))
		for id := range registry {
			ids = append(ids, id)
		}
		sort.Strings(ids)
		for _, id := range ids {
			fmt.Println(id)
		}
	default:
		die(2, "unknown command %q", os.Args[1])
	}
}

// ---------------------------------------------------------------- build

type binKey struct {
	flavour string // plain | sim
	pkg     string // directory relative to /repo ("." for the root package)
}

func (k binKey) harnessDir() string {
	p := "_root"
	if k.pkg != "." {
		p = strings.ReplaceAll(k.pkg, "/", "__")
	}
	return filepath.Join(verifDir, "harness", k.flavour, p)
}

func hashTree(h interface{ Write([]byte) (int, error) }, root string, keep func(rel string, d fs.DirEntry) bool) {
	var files []string
	filepath.WalkDir(root, func(p string, d fs.DirEntry, err error) error {
		if err != nil {
			return nil
		}
		rel, _ := filepath.Rel(root, p)
		if d.IsDir() {
			if strings.HasPrefix(d.Name(), ".") && p != root {
				return filepath.SkipDir
			}
			return nil
		}
		if keep(rel, d) {
			files = append(files, p)
		}
		return nil
	})
	sort.Strings(files)
	for _, f := range files {
		b, err := os.ReadFile(f)
		if err != nil {
			continue
		}
		h.Write([]byte(f))
		h.Write([]byte{0})
		h.Write(b)
		h.Write([]byte{0})
	}
}

func treeHash() string {
	h := sha256.New()
	hashTree(h, repoDir, func(rel string, d fs.DirEntry) bool {
		n := d.Name()
		return strings.HasSuffix(n, ".go") || n == "go.mod" || n == "go.sum"
	})
	for _, sub := range []string{"engine", "harness", "sim", "ref"} {
		hashTree(h, filepath.Join(verifDir, sub), func(rel string, d fs.DirEntry) bool { return true })
	}
	return hex.EncodeToString(h.Sum(nil))[:20]
}

var (
	genOnce sync.Once
	genDir  string
)

// generation returns the scratch directory for the current tree, creating it
// and pruning older generations.
func generation() string {
	genOnce.Do(func() {
		root := scratchRoot()
		os.MkdirAll(root, 0o755)
		genDir = filepath.Join(root, treeHash())
		if _, err := os.Stat(genDir); err != nil {
			os.MkdirAll(genDir, 0o755)
		}
		now := time.Now()
		os.Chtimes(genDir, now, now)
		ents, _ := os.ReadDir(root)
		type gen struct {
			p string
			t time.Time
		}
		var gens []gen
		for _, e := range ents {
			if e.IsDir() {
				if fi, err := e.Info(); err == nil {
					gens = append(gens, gen{filepath.Join(root, e.Name()), fi.ModTime()})
				}
			}
		}
		sort.Slice(gens, func(i, j int) bool { return gens[i].t.After(gens[j].t) })
		// keep the three newest generations, and any generation used in the last two hours: a long check of another
		// tree (a parallel run on a different working tree shares this scratch root) must not lose its directory
		for i := 3; i < len(gens); i++ {
			if now.Sub(gens[i].t) > 2*time.Hour {
				os.RemoveAll(gens[i].p)
			}
		}
	})
	return genDir
}

func withLock(path string, f func() error) error {
	lf, err := os.OpenFile(path, os.O_CREATE|os.O_RDWR, 0o644)
	if err != nil {
		return err
	}
	defer lf.Close()
	if err := syscall.Flock(int(lf.Fd()), syscall.LOCK_EX); err != nil {
		return err
	}
	defer syscall.Flock(int(lf.Fd()), syscall.LOCK_UN)
	return f()
}

func goEnv() []string {
	env := []string{}
	for _, e := range os.Environ() {
		if strings.HasPrefix(e, "GOFLAGS=") || strings.HasPrefix(e, "GOPROXY=") || strings.HasPrefix(e, "GOSUMDB=") || strings.HasPrefix(e, "GOTOOLCHAIN=") || strings.HasPrefix(e, "GOWORK=") {
			continue
		}
		env = append(env, e)
	}
	// GOSUMDB must stay unset and GOTOOLCHAIN auto: /repo's go.mod says go 1.25.0
	// and the default go (1.23.5) switches to the cached go1.25.0 toolchain.
	return append(env, "GOFLAGS=-mod=mod", "GOPROXY=off", "GOTOOLCHAIN=auto", "GOWORK=off")
}

// shimOverlay maps every file under /verif/engine/vshim into /repo/vshim.
func shimOverlay(ov map[string]string) {
	root := filepath.Join(verifDir, "engine", "vshim")
	filepath.WalkDir(root, func(p string, d fs.DirEntry, err error) error {
		if err != nil || d.IsDir() || !strings.HasSuffix(p, ".go") {
			return nil
		}
		rel, _ := filepath.Rel(root, p)
		ov[filepath.Join(repoDir, "vshim", rel)] = p
		return nil
	})
}

// commonOverlay adds the library files under harness/common/<pkg>/ (non-test files compiled into
// that package for every build, e.g. the command-level sim client inside package rueidis).
func commonOverlay(ov map[string]string, xf func(src, dst string) error, outDir string) error {
	root := filepath.Join(verifDir, "harness", "common")
	dirs, _ := os.ReadDir(root)
	for _, d := range dirs {
		pkg := strings.ReplaceAll(d.Name(), "__", "/")
		if d.Name() == "_root" {
			pkg = "."
		}
		files, _ := os.ReadDir(filepath.Join(root, d.Name()))
		for _, f := range files {
			if !strings.HasSuffix(f.Name(), ".go") {
				continue
			}
			src := filepath.Join(root, d.Name(), f.Name())
			if xf != nil {
				out := filepath.Join(outDir, "c_"+d.Name()+"_"+f.Name())
				if err := xf(src, out); err != nil {
					return err
				}
				src = out
			}
			ov[filepath.Join(repoDir, pkg, "zz_verif_"+f.Name())] = src
		}
	}
	return nil
}

func harnessOverlay(k binKey, ov map[string]string, xf func(src, dst string) error, outDir string) error {
	if err := commonOverlay(ov, xf, outDir); err != nil {
		return err
	}
	ents, err := os.ReadDir(k.harnessDir())
	if err != nil {
		return fmt.Errorf("no harness dir for %v: %v", k, err)
	}
	for _, e := range ents {
		if !strings.HasSuffix(e.Name(), ".go") || !onlyFilter(e.Name()) {
			continue
		}
		src := filepath.Join(k.harnessDir(), e.Name())
		dst := filepath.Join(repoDir, k.pkg, "zz_verif_"+e.Name())
		if xf != nil {
			out := filepath.Join(outDir, "h_"+strings.ReplaceAll(k.pkg, "/", "__")+"_"+e.Name())
			if err := xf(src, out); err != nil {
				return err
			}
			src = out
		}
		ov[dst] = src
	}
	return nil
}

// onlyFilter implements VERIF_ONLY (development aid): a comma separated list of
// file-name prefixes; only matching harness files (and util_* helpers) are
// compiled in, so that a broken harness under development cannot break others.
func onlyFilter(name string) bool {
	only := os.Getenv("VERIF_ONLY")
	if only == "" || strings.HasPrefix(name, "util_") {
		return true
	}
	for _, p := range strings.Split(only, ",") {
		if p != "" && strings.HasPrefix(name, p) {
			return true
		}
	}
	return false
}

// moduleDirFor returns the directory holding the go.mod that governs pkg.
func moduleDirFor(pkg string) string {
	d := filepath.Join(repoDir, pkg)
	for {
		if _, err := os.Stat(filepath.Join(d, "go.mod")); err == nil {
			return d
		}
		if d == repoDir || d == "/" {
			return repoDir
		}
		d = filepath.Dir(d)
	}
}

// buildBin builds (or reuses) the harness binary for k and returns its path.
func buildBin(k binKey) (string, error) {
	gen := generation()
	name := k.flavour + "_" + strings.ReplaceAll(k.pkg, "/", "__")
	if k.pkg == "." {
		name = k.flavour + "_root"
	}
	if only := os.Getenv("VERIF_ONLY"); only != "" {
		name += "_only_" + sigFile(only)
	}
	bin := filepath.Join(gen, name+".test")
	var berr error
	err := withLock(filepath.Join(gen, name+".lock"), func() error {
		if _, err := os.Stat(bin); err == nil {
			return nil
		}
		t0 := time.Now()
		ov := map[string]string{}
		shimOverlay(ov)
		var xf func(src, dst string) error
		if k.flavour == "sim" {
			xdir := filepath.Join(gen, "xform")
			if err := withLock(filepath.Join(gen, "xform.lock"), func() error {
				return vxform.TransformRepo(repoDir, xdir)
			}); err != nil {
				return fmt.Errorf("vxform: %w", err)
			}
			if err := vxform.LoadOverlay(xdir, ov); err != nil {
				return err
			}
			xf = func(src, dst string) error { return vxform.TransformFile(src, dst) }
		}
		if err := harnessOverlay(k, ov, xf, gen); err != nil {
			return err
		}
		ovPath := filepath.Join(gen, name+".overlay.json")
		b, _ := json.Marshal(map[string]any{"Replace": ov})
		if err := os.WriteFile(ovPath, b, 0o644); err != nil {
			return err
		}
		mod := moduleDirFor(k.pkg)
		rel, _ := filepath.Rel(mod, filepath.Join(repoDir, k.pkg))
		tags := "verif"
		if k.flavour == "sim" {
			tags = "verif,verifsim"
		}
		cmd := exec.Command("go", "test", "-c", "-tags", tags, "-vet=off", "-overlay", ovPath, "-o", bin+".tmp", "./"+rel)
		cmd.Dir = mod
		cmd.Env = goEnv()
		out, err := cmd.CombinedOutput()
		if err != nil {
			berr = fmt.Errorf("go test -c failed for %v:\n%s", k, out)
			return berr
		}
		if err := os.Rename(bin+".tmp", bin); err != nil {
			return err
		}
		fmt.Fprintf(os.Stderr, "verif: built %s in %.1fs\n", name, time.Since(t0).Seconds())
		return nil
	})
	if err != nil {
		return "", err
	}
	return bin, nil
}

func cmdBuildAll() int {
	seen := map[binKey]bool{}
	var keys []binKey
	for _, c := range registry {
		if !seen[c.bin] {
			seen[c.bin] = true
			keys = append(keys, c.bin)
		}
	}
	sort.Slice(keys, func(i, j int) bool { return keys[i].flavour+keys[i].pkg < keys[j].flavour+keys[j].pkg })
	rc := 0
	for _, k := range keys {
		if _, err := buildBin(k); err != nil {
			fmt.Fprintln(os.Stderr, err)
			rc = 2
		}
	}
	return rc
}

// ---------------------------------------------------------------- run

type violation struct {
	Sig    string          `json:"sig"`
	Detail string          `json:"detail"`
	Replay json.RawMessage `json:"replay"`
	Count  int64           `json:"count"`
	Part   int             `json:"part,omitempty"` // index into the check's parts (0 = the main binary)
}

type shardResult struct {
	Property       string           `json:"property"`
	Evaluations    int64            `json:"evaluations"`
	Transitions    int64            `json:"transitions"`
	States         int64            `json:"states"`
	Nontrivial     int64            `json:"distinct_nontrivial"`
	Outcomes       map[string]int64 `json:"outcomes"`
	Exhaustive     bool             `json:"exhaustive"`
	Caps           []string         `json:"caps"`
	Bounds         map[string]any   `json:"bounds"`
	Samples        []any            `json:"samples"`
	Violations     []violation      `json:"violations"`
	Assumptions    []string         `json:"assumptions"`
	Rule           string           `json:"rule"`
	Notes          []string         `json:"notes"`
	Replayed       *bool            `json:"replayed_violation"`
	MachineryError string           `json:"machinery_error"`
	WallS          float64          `json:"wall_s"`
}

func runShard(c *check, bin, tier string, shard, nshards int, replay string, budget float64) (*shardResult, string, error) {
	gen := generation()
	os.MkdirAll(gen, 0o755)
	if now := time.Now(); true {
		os.Chtimes(gen, now, now) // mark the generation as in use
	}
	out := filepath.Join(gen, fmt.Sprintf("out_%s_%s_%d_%d.json", c.id, tier, shard, os.Getpid()))
	os.Remove(out)
	defer os.Remove(out)
	args := []string{"-test.run", "^" + c.test() + "$", "-test.timeout", "0", "-test.count", "1"}
	cmd := exec.Command(bin, args...)
	cmd.Dir = filepath.Join(repoDir, c.bin.pkg)
	env := append(os.Environ(), "VERIF_OUT="+out, "VERIF_TIER="+tier, "VERIF_SHARD="+strconv.Itoa(shard), "VERIF_NSHARDS="+strconv.Itoa(nshards),
		"VERIF_BUDGET_S="+strconv.FormatFloat(budget, 'f', 1, 64), "VERIF_PROP="+c.id)
	if c.gomaxprocs > 0 {
		env = append(env, "GOMAXPROCS="+strconv.Itoa(c.gomaxprocs))
	}
	if replay != "" {
		env = append(env, "VERIF_REPLAY="+replay)
	}
	cmd.Env = env
	var hardTimeout = time.Duration(budget*2+120) * time.Second
	done := make(chan struct{})
	var output []byte
	var runErr error
	go func() {
		output, runErr = cmd.CombinedOutput()
		close(done)
	}()
	select {
	case <-done:
	case <-time.After(hardTimeout):
		if cmd.Process != nil {
			cmd.Process.Kill()
		}
		<-done
		return nil, string(output), fmt.Errorf("shard %d exceeded hard timeout %v", shard, hardTimeout)
	}
	b, err := os.ReadFile(out)
	if err != nil {
		return nil, string(output), fmt.Errorf("shard %d produced no result (%v)", shard, runErr)
	}
	var r shardResult
	if err := json.Unmarshal(b, &r); err != nil {
		return nil, string(output), fmt.Errorf("shard %d result unreadable: %v", shard, err)
	}
	if r.MachineryError != "" {
		return &r, string(output), fmt.Errorf("shard %d machinery error: %s", shard, r.MachineryError)
	}
	return &r, string(output), nil
}

type knownFinding struct {
	Property  string `json:"property"`
	Signature string `json:"signature"`
	Status    string `json:"status"` // known | fixed
	Commit    string `json:"commit,omitempty"`
	What      string `json:"what"`
}

func loadKnown() []knownFinding {
	var k []knownFinding
	b, err := os.ReadFile(filepath.Join(verifDir, "known_findings.json"))
	if err == nil {
		json.Unmarshal(b, &k)
	}
	return k
}

func sigFile(sig string) string {
	h := sha256.Sum256([]byte(sig))
	s := strings.Map(func(r rune) rune {
		if r >= 'a' && r <= 'z' || r >= 'A' && r <= 'Z' || r >= '0' && r <= '9' {
			return r
		}
		return '_'
	}, sig)
	if len(s) > 60 {
		s = s[:60]
	}
	return s + "_" + hex.EncodeToString(h[:4])
}

func cmdCheck(id, tier string) int {
	c, ok := registry[id]
	if !ok {
		die(2, "unknown property %q", id)
	}
	t0 := time.Now()
	// a check may consist of several parts (binaries); every part is sharded on its own and all results are merged
	all := append([]*check{c}, c.parts...)
	bins := make([]string, len(all))
	for i, pc := range all {
		b, err := buildBin(pc.bin)
		if err != nil {
			fmt.Fprintln(os.Stderr, err)
			return 2
		}
		bins[i] = b
	}
	type job struct{ part, shard, n int }
	var jobs []job
	budget := 0.0
	for pi, pc := range all {
		nshards, b := pc.quickShards, pc.quickBudget
		if tier == "thorough" {
			nshards, b = pc.thoroughShards, pc.thoroughBudget
		}
		if nshards < 1 {
			nshards = 1
		}
		if b <= 0 {
			b = 120
		}
		if b > budget {
			budget = b
		}
		for i := 0; i < nshards; i++ {
			jobs = append(jobs, job{pi, i, nshards})
		}
	}
	if s := os.Getenv("VERIF_BUDGET_OVERRIDE"); s != "" {
		budget, _ = strconv.ParseFloat(s, 64)
	}
	results := make([]*shardResult, len(jobs))
	errs := make([]error, len(jobs))
	outs := make([]string, len(jobs))
	var wg sync.WaitGroup
	for i, j := range jobs {
		wg.Add(1)
		go func(i int, j job) {
			defer wg.Done()
			results[i], outs[i], errs[i] = runShard(all[j.part], bins[j.part], tier, j.shard, j.n, "", budget)
			if results[i] != nil {
				for k := range results[i].Violations {
					results[i].Violations[k].Part = j.part
				}
			}
		}(i, j)
	}
	wg.Wait()
	for i, e := range errs {
		if e != nil {
			fmt.Fprintf(os.Stderr, "verif: %v\n%s\n", e, tail(outs[i], 60))
			return 2
		}
	}
	// merge
	m := &shardResult{Property: id, Outcomes: map[string]int64{}, Exhaustive: true, Bounds: map[string]any{}}
	viol := map[string]*violation{}
	for _, r := range results {
		m.Evaluations += r.Evaluations
		m.Transitions += r.Transitions
		m.States += r.States
		m.Nontrivial += r.Nontrivial
		for k, v := range r.Outcomes {
			m.Outcomes[k] += v
		}
		if !r.Exhaustive {
			m.Exhaustive = false
		}
		for _, cp := range r.Caps {
			if !contains(m.Caps, cp) {
				m.Caps = append(m.Caps, cp)
			}
		}
		for k, v := range r.Bounds {
			if k == "programs" {
				mergePrograms(m.Bounds, v)
				continue
			}
			m.Bounds[k] = v
		}
		for _, s := range r.Samples {
			if len(m.Samples) < 5 {
				m.Samples = append(m.Samples, s)
			}
		}
		for _, a := range r.Assumptions {
			if !contains(m.Assumptions, a) {
				m.Assumptions = append(m.Assumptions, a)
			}
		}
		for _, a := range r.Notes {
			if !contains(m.Notes, a) {
				m.Notes = append(m.Notes, a)
			}
		}
		if r.Rule != "" && !strings.Contains(m.Rule, r.Rule) {
			if m.Rule != "" {
				m.Rule += " || "
			}
			m.Rule += r.Rule
		}
		for i := range r.Violations {
			v := r.Violations[i]
			if old, ok := viol[v.Sig]; ok {
				old.Count += v.Count
			} else {
				vv := v
				viol[v.Sig] = &vv
			}
		}
	}
	known := loadKnown()
	sigs := make([]string, 0, len(viol))
	for s := range viol {
		sigs = append(sigs, s)
	}
	sort.Strings(sigs)
	newViol := 0
	extra := 0
	var lines []string
	for _, s := range sigs {
		v := viol[s]
		isKnown := false
		for _, k := range known {
			if k.Property == id && k.Status == "known" && k.Signature == s {
				isKnown = true
				lines = append(lines, fmt.Sprintf("KNOWN-FINDING: property=%s %s", id, k.What))
			}
		}
		if isKnown {
			continue
		}
		// write the replay artefact and confirm it reproduces (5x) before reporting
		dir := filepath.Join(verifDir, "replays", id)
		os.MkdirAll(dir, 0o755)
		path := filepath.Join(dir, sigFile(s)+".json")
		art, _ := json.MarshalIndent(map[string]any{"property": id, "tier": tier, "sig": v.Sig, "detail": v.Detail, "replay": v.Replay, "count": v.Count, "part": v.Part}, "", " ")
		os.WriteFile(path, art, 0o644)
		reproduced := 0
		const tries = 5
		if newViol >= 8 {
			// enough confirmed counterexamples: the remaining signatures are written out but not replayed
			newViol++
			extra++
			continue
		}
		if c.noReplayConfirm {
			reproduced = tries
		} else {
			for i := 0; i < tries; i++ {
				r, _, err := runShard(all[v.Part], bins[v.Part], tier, 0, 1, path, 120)
				if err == nil && r.Replayed != nil && *r.Replayed {
					reproduced++
				}
			}
		}
		if reproduced != tries {
			fmt.Fprintf(os.Stderr, "verif: machinery error: violation %q reproduced only %d/%d times on replay; not reported (nondeterminism in harness)\n", s, reproduced, tries)
			writeEvidence(c, tier, m, 0, time.Since(t0), "replay of a reported violation was not deterministic")
			return 2
		}
		newViol++
		lines = append(lines, fmt.Sprintf("VIOLATION property=%s replay=%s", id, path))
		d := v.Detail
		if len(d) > 1200 {
			d = d[:1200] + "\n...(see replay file)"
		}
		fmt.Fprintf(os.Stderr, "--- %s: %s\n%s\n", id, v.Sig, d)
	}
	if extra > 0 {
		lines = append(lines, fmt.Sprintf("(%d more violation signatures were found; their replay files are in %s)", extra, filepath.Join(verifDir, "replays", id)))
	}
	writeEvidence(c, tier, m, newViol, time.Since(t0), "")
	for _, l := range lines {
		fmt.Println(l)
	}
	fmt.Printf("%s tier=%s evaluations=%d states=%d transitions=%d nontrivial=%d outcomes=%d exhaustive=%v violations=%d wall=%.1fs\n",
		id, tier, m.Evaluations, m.States, m.Transitions, m.Nontrivial, len(m.Outcomes), m.Exhaustive, newViol, time.Since(t0).Seconds())
	if newViol > 0 {
		return 1
	}
	return 0
}

func contains(l []string, s string) bool {
	for _, x := range l {
		if x == s {
			return true
		}
	}
	return false
}

func tail(s string, n int) string {
	l := strings.Split(s, "\n")
	if len(l) > n {
		l = l[len(l)-n:]
	}
	return strings.Join(l, "\n")
}

func writeEvidence(c *check, tier string, m *shardResult, nviol int, wall time.Duration, machinery string) {
	seed, _ := strconv.Atoi(os.Getenv("VERIF_SEED"))
	samples := m.Samples
	if len(samples) == 0 {
		samples = []any{"(no sample recorded)"}
	}
	states, trans := m.States, m.Transitions
	if states < 1 {
		states = 1
	}
	if trans < 1 {
		trans = m.Evaluations
	}
	if trans < 1 {
		trans = 1
	}
	cov := map[string]any{
		"evaluations":                   m.Evaluations,
		"distinct_nontrivial":           m.Nontrivial,
		"rule":                          m.Rule,
		"samples":                       samples,
		"states":                        states,
		"transitions":                   trans,
		"traces_validated_against_impl": m.Evaluations,
		"exhaustive":                    m.Exhaustive,
		"distinct_outcomes":             len(m.Outcomes),
		"outcomes":                      capOutcomes(m.Outcomes),
		"bounds":                        m.Bounds,
		"caps_hit":                      m.Caps,
		"engine":                        c.engine,
		"notes":                         m.Notes,
	}
	if machinery != "" {
		cov["machinery_error"] = machinery
	}
	ev := map[string]any{
		"property_id": c.id,
		"tier":        tier,
		"seed":        seed,
		"level":       "model_checking",
		"coverage":    cov,
		"assumptions": append([]string{}, m.Assumptions...),
		"wall_s":      wall.Seconds(),
		"violations":  nviol,
	}
	b, _ := json.MarshalIndent(ev, "", " ")
	dir := filepath.Join(verifDir, "evidence")
	if os.Getenv("VERIF_REPO") != "" {
		// a run against a scratch tree (selftest, seed checks) must never overwrite the evidence of /repo itself
		dir = filepath.Join(scratchRoot(), "evidence-of-scratch-tree")
	}
	os.MkdirAll(dir, 0o755)
	os.WriteFile(filepath.Join(dir, c.id+".json"), append(b, '\n'), 0o644)
}

// capOutcomes keeps the evidence file small: per-case outcome strings (one per enumerated case in some checks) are
// listed up to a limit, in sorted order; the number of distinct outcomes is reported separately in full.
func capOutcomes(m map[string]int64) map[string]int64 {
	const limit = 400
	if len(m) <= limit {
		return m
	}
	keys := make([]string, 0, len(m))
	for k := range m {
		keys = append(keys, k)
	}
	sort.Strings(keys)
	out := make(map[string]int64, limit+1)
	var rest int64
	for i, k := range keys {
		if i < limit {
			out[k] = m[k]
		} else {
			rest += m[k]
		}
	}
	out[fmt.Sprintf("(%d more distinct outcomes not listed)", len(m)-limit)] = rest
	return out
}

func cmdReplay(path string) int {
	b, err := os.ReadFile(path)
	if err != nil {
		die(2, "%v", err)
	}
	var f struct {
		Property string `json:"property"`
		Tier     string `json:"tier"`
		Sig      string `json:"sig"`
		Part     int    `json:"part"`
	}
	if err := json.Unmarshal(b, &f); err != nil {
		die(2, "%v", err)
	}
	c, ok := registry[f.Property]
	if !ok {
		die(2, "unknown property %q in replay file", f.Property)
	}
	if f.Part > 0 && f.Part <= len(c.parts) {
		c = c.parts[f.Part-1]
	}
	bin, err := buildBin(c.bin)
	if err != nil {
		fmt.Fprintln(os.Stderr, err)
		return 2
	}
	if f.Tier == "" {
		f.Tier = "quick"
	}
	abs, _ := filepath.Abs(path)
	r, out, err := runShard(c, bin, f.Tier, 0, 1, abs, 300)
	if err != nil {
		fmt.Fprintf(os.Stderr, "verif: %v\n%s\n", err, tail(out, 60))
		return 2
	}
	if r.Replayed != nil && *r.Replayed {
		for _, v := range r.Violations {
			fmt.Fprintf(os.Stderr, "--- %s\n%s\n", v.Sig, v.Detail)
		}
		fmt.Printf("VIOLATION property=%s replay=%s\n", f.Property, abs)
		return 1
	}
	fmt.Printf("replay of %s: no violation on the current tree\n", abs)
	return 0
}

// mergePrograms sums the per-program explorer statistics of the shards.
func mergePrograms(dst map[string]any, v any) {
	src, ok := v.(map[string]any)
	if !ok {
		return
	}
	all, _ := dst["programs"].(map[string]any)
	if all == nil {
		all = map[string]any{}
		dst["programs"] = all
	}
	num := func(x any) float64 { f, _ := x.(float64); return f }
	for name, pv := range src {
		p, ok := pv.(map[string]any)
		if !ok {
			continue
		}
		old, ok := all[name].(map[string]any)
		if !ok {
			all[name] = p
			continue
		}
		old["executions"] = num(old["executions"]) + num(p["executions"])
		if num(p["completed_preemption_bound"]) < num(old["completed_preemption_bound"]) {
			old["completed_preemption_bound"] = p["completed_preemption_bound"]
		}
		if num(p["max_choice_points"]) > num(old["max_choice_points"]) {
			old["max_choice_points"] = p["max_choice_points"]
		}
		a, _ := old["executions_per_level"].([]any)
		b, _ := p["executions_per_level"].([]any)
		for i := range b {
			if i < len(a) {
				a[i] = num(a[i]) + num(b[i])
			} else {
				a = append(a, b[i])
			}
		}
		old["executions_per_level"] = a
	}
}
