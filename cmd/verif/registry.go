package main

type check struct {
	id             string
	bin            binKey
	engine         string // gosim | enum | graph
	testName       string
	quickShards    int
	thoroughShards int
	quickBudget    float64 // seconds of wall clock per shard before the harness stops with exhaustive:false
	thoroughBudget float64
	gomaxprocs     int
	noReplayConfirm bool
}

func (c *check) test() string {
	if c.testName != "" {
		return c.testName
	}
	return "TestVerif_" + c.id
}

var registry = map[string]*check{}

func reg(c check) {
	cc := c
	if cc.quickShards == 0 {
		cc.quickShards = 1
	}
	if cc.thoroughShards == 0 {
		cc.thoroughShards = cc.quickShards
	}
	if cc.quickBudget == 0 {
		cc.quickBudget = 90
	}
	if cc.thoroughBudget == 0 {
		cc.thoroughBudget = 900
	}
	registry[c.id] = &cc
}

var (
	plainRoot = binKey{"plain", "."}
	plainCmds = binKey{"plain", "internal/cmds"}
	simRoot   = binKey{"sim", "."}
)

func init() {
	reg(check{id: "C18", bin: plainCmds, engine: "enum", quickShards: 1, thoroughShards: 16})
	reg(check{id: "C02", bin: simRoot, engine: "gosim", quickShards: 8, thoroughShards: 16, gomaxprocs: 1})
	reg(check{id: "C24", bin: simRoot, engine: "gosim", quickShards: 8, thoroughShards: 16, gomaxprocs: 1})
}
