package main

import (
	"os"
	"path/filepath"
	"strings"
)

type check struct {
	id              string
	bin             binKey
	engine          string // gosim | enum | graph
	testName        string
	quickShards     int
	thoroughShards  int
	quickBudget     float64 // seconds of wall clock per shard before the harness stops with exhaustive:false
	thoroughBudget  float64
	gomaxprocs      int
	noReplayConfirm bool
	parts           []*check // further binaries whose results are merged into this check (same property id)
}

func (c *check) test() string {
	if c.testName != "" {
		return c.testName
	}
	return "TestVerif_" + c.id
}

var registry = map[string]*check{}

func reg(c check) {
	cc := c
	if cc.quickShards == 0 {
		cc.quickShards = 1
	}
	if cc.thoroughShards == 0 {
		cc.thoroughShards = cc.quickShards
	}
	if cc.quickBudget == 0 {
		cc.quickBudget = 90
	}
	if cc.thoroughBudget == 0 {
		cc.thoroughBudget = 900
	}
	for i, p := range cc.parts {
		pp := *p
		pp.id = cc.id
		if pp.quickShards == 0 {
			pp.quickShards = 1
		}
		if pp.thoroughShards == 0 {
			pp.thoroughShards = pp.quickShards
		}
		if pp.quickBudget == 0 {
			pp.quickBudget = 90
		}
		if pp.thoroughBudget == 0 {
			pp.thoroughBudget = 900
		}
		cc.parts[i] = &pp
	}
	registry[c.id] = &cc
}

var (
	plainRoot = binKey{"plain", "."}
	plainCmds = binKey{"plain", "internal/cmds"}
	simRoot   = binKey{"sim", "."}
)

// discover registers every harness file named cNN[_...]_test.go that has no explicit entry.
func discover() {
	for _, fl := range []string{"plain", "sim"} {
		dirs, _ := os.ReadDir(filepath.Join(verifDir, "harness", fl))
		for _, d := range dirs {
			pkg := strings.ReplaceAll(d.Name(), "__", "/")
			if d.Name() == "_root" {
				pkg = "."
			}
			files, _ := os.ReadDir(filepath.Join(verifDir, "harness", fl, d.Name()))
			for _, f := range files {
				n := f.Name()
				if len(n) < 4 || n[0] != 'c' || !strings.HasSuffix(n, "_test.go") {
					continue
				}
				id := "C" + n[1:3]
				if n[1] < '0' || n[1] > '9' || n[2] < '0' || n[2] > '9' {
					continue
				}
				if _, ok := registry[id]; ok {
					continue
				}
				c := check{id: id, bin: binKey{fl, pkg}, engine: "enum"}
				if fl == "sim" {
					c.engine, c.gomaxprocs, c.quickShards, c.thoroughShards = "gosim", 1, 8, 16
				}
				reg(c)
			}
		}
	}
}

func init() {
	defer discover()
	reg(check{id: "C18", bin: plainCmds, engine: "enum", quickShards: 1, thoroughShards: 16})
	reg(check{id: "C45", bin: plainRoot, engine: "enum", quickShards: 1, thoroughShards: 16})
	reg(check{id: "C44", bin: plainRoot, engine: "enum", quickShards: 2, thoroughShards: 16})
	reg(check{id: "C13", bin: plainRoot, engine: "enum", quickShards: 6, thoroughShards: 16})
	reg(check{id: "C12", bin: plainRoot, engine: "enum", quickShards: 2, thoroughShards: 16})
	reg(check{id: "C17", bin: plainRoot, engine: "enum", quickShards: 2, thoroughShards: 16})
	reg(check{id: "C15", bin: plainRoot, engine: "enum", quickShards: 4, thoroughShards: 16})
	reg(check{id: "C02", bin: simRoot, engine: "gosim", quickShards: 8, thoroughShards: 16, gomaxprocs: 1})
	reg(check{id: "C33", bin: plainCmds, engine: "enum", quickShards: 1, thoroughShards: 1,
		parts: []*check{{bin: simRoot, testName: "TestVerif_C33R", engine: "gosim", gomaxprocs: 1, quickShards: 8, thoroughShards: 16}}})
	simProb := binKey{"sim", "rueidisprob"}
	plainProb := binKey{"plain", "rueidisprob"}
	for id, tn := range map[string]string{"C35": "TestVerif_C35C", "C36": "TestVerif_C36C", "C37": "TestVerif_C37C"} {
		reg(check{id: id, bin: plainProb, engine: "enum", quickShards: 4, thoroughShards: 16,
			parts: []*check{{bin: simProb, testName: tn, engine: "gosim", gomaxprocs: 1, quickShards: 4, thoroughShards: 8, quickBudget: 40, thoroughBudget: 300}}})
	}
	reg(check{id: "C24", bin: simRoot, engine: "gosim", quickShards: 8, thoroughShards: 16, gomaxprocs: 1})
}
