#!/bin/sh
# Builds the verification CLI and pre-builds every harness binary for /repo's
# current working tree. Offline; uses only the Go toolchains and module cache in the image.
set -e
cd "$(dirname "$0")"
unset GOSUMDB GOTOOLCHAIN
export GOFLAGS=-mod=mod GOPROXY=off GOWORK=off
mkdir -p bin evidence replays
go build -o bin/verif ./cmd/verif
./bin/verif build
